//! The only place where ctap-types fields are mapped to specification names.
//! observe_*: real decoded value -> named view; build_*: named view -> real value.
//! Written width- and capacity-agnostic (ToU64, slices, inference) so that a changed capacity or
//! integer width in the subject still compiles and is judged by the oracle, not by rustc.

use crate::refcbor::V;
use ctap_types::ctap2::{self, client_pin, credential_management, get_assertion, get_info, large_blobs, make_credential};
use ctap_types::webauthn::*;

pub trait ToU64 {
    fn to_u64(&self) -> u64;
}
macro_rules! to_u64 {
    ($($t:ty),*) => {$(impl ToU64 for $t { fn to_u64(&self) -> u64 { *self as u64 } })*};
}
to_u64!(u8, u16, u32, u64, usize);

pub trait ToI64 {
    fn to_i64(&self) -> i64;
}
macro_rules! to_i64 {
    ($($t:ty),*) => {$(impl ToI64 for $t { fn to_i64(&self) -> i64 { *self as i64 } })*};
}
to_i64!(i8, i16, i32, i64);

fn u<T: ToU64>(x: &T) -> V {
    V::U(x.to_u64())
}
fn i<T: ToI64>(x: &T) -> V {
    V::int(x.to_i64())
}
/// byte-string-like and text-like members, whether the subject holds them borrowed or owned
pub trait BytesLike {
    fn bytes(&self) -> &[u8];
}
impl BytesLike for [u8] {
    fn bytes(&self) -> &[u8] {
        self
    }
}
impl BytesLike for serde_bytes::Bytes {
    fn bytes(&self) -> &[u8] {
        self
    }
}
impl<const N: usize> BytesLike for serde_bytes::ByteArray<N> {
    fn bytes(&self) -> &[u8] {
        &self[..]
    }
}
impl<const N: usize> BytesLike for ctap_types::Bytes<N> {
    fn bytes(&self) -> &[u8] {
        self
    }
}
impl<const N: usize> BytesLike for [u8; N] {
    fn bytes(&self) -> &[u8] {
        self
    }
}
impl<T: BytesLike + ?Sized> BytesLike for &T {
    fn bytes(&self) -> &[u8] {
        (**self).bytes()
    }
}
pub trait TextLike {
    fn text(&self) -> &str;
}
impl TextLike for str {
    fn text(&self) -> &str {
        self
    }
}
impl<const N: usize> TextLike for ctap_types::String<N> {
    fn text(&self) -> &str {
        self.as_str()
    }
}
impl<T: TextLike + ?Sized> TextLike for &T {
    fn text(&self) -> &str {
        (**self).text()
    }
}
fn b<T: BytesLike + ?Sized>(x: &T) -> V {
    V::B(x.bytes().to_vec())
}
fn t<T: TextLike + ?Sized>(x: &T) -> V {
    V::t(x.text())
}
/// credential descriptors, borrowed (requests) or owned (responses)
pub trait DescriptorLike {
    fn view(&self) -> V;
}
impl DescriptorLike for PublicKeyCredentialDescriptorRef<'_> {
    fn view(&self) -> V {
        let mut m = MapB::new();
        m.put("id", b(&self.id));
        m.put("type", t(&self.key_type));
        m.done()
    }
}
impl DescriptorLike for PublicKeyCredentialDescriptor {
    fn view(&self) -> V {
        let mut m = MapB::new();
        m.put("id", b(&self.id));
        m.put("type", t(&self.key_type));
        m.done()
    }
}
fn desc<T: DescriptorLike>(x: &T) -> V {
    x.view()
}

struct MapB(Vec<(V, V)>);
impl MapB {
    fn new() -> Self {
        MapB(Vec::new())
    }
    fn put(&mut self, name: &str, v: V) {
        self.0.push((V::t(name), v));
    }
    fn opt(&mut self, name: &str, v: Option<V>) {
        if let Some(v) = v {
            self.put(name, v)
        }
    }
    fn done(self) -> V {
        V::M(self.0)
    }
}

// ------------------------------------------------------------------ observe: requests

pub fn observe_request(r: &ctap2::Request<'_>) -> V {
    let mut m = MapB::new();
    let (name, params) = match r {
        ctap2::Request::MakeCredential(x) => ("MakeCredential", Some(observe_mc(x))),
        ctap2::Request::GetAssertion(x) => ("GetAssertion", Some(observe_ga(x))),
        ctap2::Request::GetNextAssertion => ("GetNextAssertion", None),
        ctap2::Request::GetInfo => ("GetInfo", None),
        ctap2::Request::ClientPin(x) => ("ClientPin", Some(observe_cp(x))),
        ctap2::Request::Reset => ("Reset", None),
        ctap2::Request::CredentialManagement(x) => ("CredentialManagement", Some(observe_cm(x))),
        ctap2::Request::Selection => ("Selection", None),
        ctap2::Request::LargeBlobs(x) => ("LargeBlobs", Some(observe_lb(x))),
        ctap2::Request::Vendor(op) => {
            m.put("cmd", V::t(&format!("Vendor({})", u8::from(*op))));
            return m.done();
        }
        #[allow(unreachable_patterns)]
        _ => ("<unknown variant>", None),
    };
    m.put("cmd", V::t(name));
    m.opt("params", params);
    m.done()
}

pub fn observe_rp(x: &PublicKeyCredentialRpEntity) -> V {
    let mut m = MapB::new();
    m.put("id", t(&x.id));
    m.opt("name", x.name.as_ref().map(t));
    m.opt("icon", x.icon.as_ref().map(|_| V::Bool(true)));
    m.done()
}

pub fn observe_user(x: &PublicKeyCredentialUserEntity) -> V {
    let mut m = MapB::new();
    m.put("id", b(&x.id));
    m.opt("icon", x.icon.as_ref().map(t));
    m.opt("name", x.name.as_ref().map(t));
    m.opt("displayName", x.display_name.as_ref().map(t));
    m.done()
}

pub fn observe_descriptor_ref(x: &PublicKeyCredentialDescriptorRef<'_>) -> V {
    x.view()
}

pub fn observe_descriptor(x: &PublicKeyCredentialDescriptor) -> V {
    x.view()
}

pub fn observe_param(x: &PublicKeyCredentialParameters) -> V {
    let mut m = MapB::new();
    m.put("alg", i(&x.alg));
    m.put("type", t(&x.key_type));
    m.done()
}

pub fn observe_params(x: &FilteredPublicKeyCredentialParameters) -> V {
    V::A(x.0.iter().map(|p| i(&p.alg)).collect())
}

pub fn observe_options(x: &ctap2::AuthenticatorOptions) -> V {
    let mut m = MapB::new();
    m.opt("rk", x.rk.map(V::Bool));
    m.opt("up", x.up.map(V::Bool));
    m.opt("uv", x.uv.map(V::Bool));
    m.done()
}

pub fn observe_formats(x: &ctap2::AttestationFormatsPreference) -> V {
    let mut m = MapB::new();
    m.put(
        "known",
        V::A(x.known_formats().iter().map(|f| V::t(<&str>::from(*f))).collect()),
    );
    m.put("unknown", V::Bool(x.includes_unknown_formats()));
    m.done()
}

pub fn observe_mc_ext(x: &make_credential::Extensions) -> V {
    let mut m = MapB::new();
    m.opt("credProtect", x.cred_protect.as_ref().map(u));
    m.opt("hmac-secret", x.hmac_secret.map(V::Bool));
    m.opt("largeBlobKey", x.large_blob_key.map(V::Bool));
    #[cfg(feature = "t")]
    m.opt("thirdPartyPayment", x.third_party_payment.map(V::Bool));
    m.done()
}

pub fn observe_ecdh(x: &cosey::EcdhEsHkdf256PublicKey) -> V {
    let mut m = MapB::new();
    m.put("x", b(&x.x));
    m.put("y", b(&x.y));
    m.done()
}

pub fn observe_hmac_secret(x: &get_assertion::HmacSecretInput) -> V {
    let mut m = MapB::new();
    m.put("keyAgreement", observe_ecdh(&x.key_agreement));
    m.put("saltEnc", b(&x.salt_enc));
    m.put("saltAuth", b(&x.salt_auth));
    m.opt("pinUvAuthProtocol", x.pin_protocol.as_ref().map(u));
    m.done()
}

pub fn observe_ga_ext(x: &get_assertion::ExtensionsInput) -> V {
    let mut m = MapB::new();
    m.opt("hmac-secret", x.hmac_secret.as_ref().map(observe_hmac_secret));
    m.opt("largeBlobKey", x.large_blob_key.map(V::Bool));
    #[cfg(feature = "t")]
    m.opt("thirdPartyPayment", x.third_party_payment.map(V::Bool));
    m.done()
}

pub fn observe_mc(x: &make_credential::Request<'_>) -> V {
    let mut m = MapB::new();
    m.put("clientDataHash", b(&x.client_data_hash));
    m.put("rp", observe_rp(&x.rp));
    m.put("user", observe_user(&x.user));
    m.put("pubKeyCredParams", observe_params(&x.pub_key_cred_params));
    m.opt(
        "excludeList",
        x.exclude_list
            .as_ref()
            .map(|l| V::A(l.iter().map(desc).collect())),
    );
    m.opt("extensions", x.extensions.as_ref().map(observe_mc_ext));
    m.opt("options", x.options.as_ref().map(observe_options));
    m.opt("pinUvAuthParam", x.pin_auth.as_ref().map(b));
    m.opt("pinUvAuthProtocol", x.pin_protocol.as_ref().map(u));
    m.opt("enterpriseAttestation", x.enterprise_attestation.as_ref().map(u));
    m.opt(
        "attestationFormatsPreference",
        x.attestation_formats_preference.as_ref().map(observe_formats),
    );
    m.done()
}

pub fn observe_ga(x: &get_assertion::Request<'_>) -> V {
    let mut m = MapB::new();
    m.put("rpId", t(&x.rp_id));
    m.put("clientDataHash", b(&x.client_data_hash));
    m.opt(
        "allowList",
        x.allow_list
            .as_ref()
            .map(|l| V::A(l.iter().map(desc).collect())),
    );
    m.opt("extensions", x.extensions.as_ref().map(observe_ga_ext));
    m.opt("options", x.options.as_ref().map(observe_options));
    m.opt("pinUvAuthParam", x.pin_auth.as_ref().map(b));
    m.opt("pinUvAuthProtocol", x.pin_protocol.as_ref().map(u));
    m.opt("enterpriseAttestation", x.enterprise_attestation.as_ref().map(u));
    m.opt(
        "attestationFormatsPreference",
        x.attestation_formats_preference.as_ref().map(observe_formats),
    );
    m.done()
}

pub fn observe_cp(x: &client_pin::Request<'_>) -> V {
    let mut m = MapB::new();
    m.put("pinUvAuthProtocol", u(&x.pin_protocol));
    m.put("subCommand", V::U(x.sub_command.clone() as u64));
    m.opt("keyAgreement", x.key_agreement.as_ref().map(observe_ecdh));
    m.opt("pinUvAuthParam", x.pin_auth.as_ref().map(b));
    m.opt("newPinEnc", x.new_pin_enc.as_ref().map(b));
    m.opt("pinHashEnc", x.pin_hash_enc.as_ref().map(b));
    m.opt("permissions", x.permissions.as_ref().map(u));
    m.opt("rpId", x.rp_id.as_ref().map(t));
    m.done()
}

pub fn observe_cm_params(p: &credential_management::SubcommandParameters<'_>) -> V {
    let mut m = MapB::new();
    m.opt("rpIDHash", p.rp_id_hash.as_ref().map(b));
    m.opt("credentialID", p.credential_id.as_ref().map(desc));
    m.opt("user", p.user.as_ref().map(observe_user));
    m.done()
}

pub fn observe_cm(x: &credential_management::Request<'_>) -> V {
    let mut m = MapB::new();
    m.put("subCommand", V::U(x.sub_command as u64));
    m.opt(
        "subCommandParams",
        x.sub_command_params.as_ref().map(observe_cm_params),
    );
    m.opt("pinUvAuthProtocol", x.pin_protocol.as_ref().map(u));
    m.opt("pinUvAuthParam", x.pin_auth.as_ref().map(b));
    m.done()
}

pub fn observe_lb(x: &large_blobs::Request<'_>) -> V {
    let mut m = MapB::new();
    m.opt("get", x.get.as_ref().map(u));
    m.opt("set", x.set.as_ref().map(b));
    m.put("offset", u(&x.offset));
    m.opt("length", x.length.as_ref().map(u));
    m.opt("pinUvAuthParam", x.pin_uv_auth_param.as_ref().map(b));
    m.opt("pinUvAuthProtocol", x.pin_uv_auth_protocol.as_ref().map(u));
    m.done()
}

// ------------------------------------------------------------------ build: responses

fn get<'a>(v: &'a V, name: &str) -> Option<&'a V> {
    v.get_t(name)
}
/// assign an optional member only when the view carries it: members the view does not mention
/// keep whatever the public constructor (builder / Default) put there, so a constructor that
/// pre-sets a member is visible to the oracles
fn set<T>(dst: &mut Option<T>, v: &V, name: &str, f: impl Fn(&V) -> T) {
    if let Some(x) = get(v, name) {
        *dst = Some(f(x));
    }
}
fn req<'a>(v: &'a V, name: &str) -> &'a V {
    v.get_t(name).unwrap_or_else(|| panic!("view lacks {}", name))
}
fn bytes_n<const N: usize>(v: &V) -> ctap_types::Bytes<N> {
    ctap_types::Bytes::from_slice(v.as_bytes().expect("bytes")).expect("fits declared capacity")
}
fn string_n<const N: usize>(v: &V) -> ctap_types::String<N> {
    let s = v.as_str().expect("text");
    let mut out = ctap_types::String::new();
    out.push_str(s).expect("fits declared capacity");
    out
}
fn byte_array<const N: usize>(v: &V) -> ctap_types::ByteArray<N> {
    let b: [u8; N] = v.as_bytes().expect("bytes").try_into().expect("exact length");
    ctap_types::ByteArray::new(b)
}
fn num<T: TryFrom<u64>>(v: &V) -> T
where
    T::Error: std::fmt::Debug,
{
    T::try_from(v.as_u64().expect("unsigned")).expect("within range")
}
fn vec_of<T, const N: usize>(v: &V, f: impl Fn(&V) -> T) -> ctap_types::Vec<T, N> {
    let mut out = ctap_types::Vec::new();
    for x in v.as_arr().expect("array") {
        if out.push(f(x)).is_err() {
            panic!("list exceeds declared capacity");
        }
    }
    out
}
fn text_enum<T: for<'a> TryFrom<&'a str>>(v: &V) -> T {
    match T::try_from(v.as_str().expect("text")) {
        Ok(x) => x,
        Err(_) => panic!("unknown spelling {:?}", v),
    }
}

pub fn build_rp(v: &V) -> PublicKeyCredentialRpEntity {
    PublicKeyCredentialRpEntity {
        id: string_n(req(v, "id")),
        name: get(v, "name").map(string_n),
        icon: get(v, "icon").map(|_| Icon),
    }
}

pub fn build_user(v: &V) -> PublicKeyCredentialUserEntity {
    let mut u = PublicKeyCredentialUserEntity::from(bytes_n(req(v, "id")));
    set(&mut u.icon, v, "icon", string_n);
    set(&mut u.name, v, "name", string_n);
    set(&mut u.display_name, v, "displayName", string_n);
    u
}

pub fn build_descriptor(v: &V) -> PublicKeyCredentialDescriptor {
    PublicKeyCredentialDescriptor {
        id: bytes_n(req(v, "id")),
        key_type: string_n(req(v, "type")),
    }
}

pub fn build_known_params(v: &V) -> FilteredPublicKeyCredentialParameters {
    FilteredPublicKeyCredentialParameters(vec_of(v, |x| KnownPublicKeyCredentialParameters {
        alg: x.as_i128().expect("alg") as i32,
    }))
}

pub fn build_ecdh(v: &V) -> cosey::EcdhEsHkdf256PublicKey {
    cosey::EcdhEsHkdf256PublicKey {
        x: bytes_n(req(v, "x")),
        y: bytes_n(req(v, "y")),
    }
}

pub fn build_public_key(v: &V) -> cosey::PublicKey {
    match req(v, "kind").as_str().unwrap() {
        "p256" => cosey::PublicKey::P256Key(cosey::P256PublicKey {
            x: bytes_n(req(v, "x")),
            y: bytes_n(req(v, "y")),
        }),
        "ecdh" => cosey::PublicKey::EcdhEsHkdf256Key(build_ecdh(v)),
        "ed25519" => cosey::PublicKey::Ed25519Key(cosey::Ed25519PublicKey {
            x: bytes_n(req(v, "x")),
        }),
        "totp" => cosey::PublicKey::TotpKey(cosey::TotpPublicKey {}),
        k => panic!("cose kind {}", k),
    }
}

pub fn build_att_stmt(v: &V) -> ctap2::AttestationStatement {
    match req(v, "kind").as_str().unwrap() {
        "none" => ctap2::AttestationStatement::None(ctap2::NoneAttestationStatement {}),
        _ => ctap2::AttestationStatement::Packed(ctap2::PackedAttestationStatement {
            alg: req(v, "alg").as_i128().unwrap() as i32,
            sig: bytes_n(req(v, "sig")),
            x5c: get(v, "x5c").map(|l| vec_of(l, bytes_n)),
        }),
    }
}

pub fn build_ctap_options(v: &V) -> get_info::CtapOptions {
    let mut o = get_info::CtapOptions::default();
    let gb = |n: &str| get(v, n).map(|x| x.as_bool().unwrap());
    o.rk = gb("rk").expect("rk");
    o.up = gb("up").expect("up");
    if let Some(b) = gb("uv") {
        o.uv = Some(b);
    }
    if let Some(b) = gb("plat") {
        o.plat = Some(b);
    }
    if let Some(b) = gb("credMgmt") {
        o.cred_mgmt = Some(b);
    }
    if let Some(b) = gb("clientPin") {
        o.client_pin = Some(b);
    }
    if let Some(b) = gb("largeBlobs") {
        o.large_blobs = Some(b);
    }
    if let Some(b) = gb("pinUvAuthToken") {
        o.pin_uv_auth_token = Some(b);
    }
    #[cfg(feature = "g")]
    {
        if let Some(b) = gb("ep") {
            o.ep = Some(b);
        }
        if let Some(b) = gb("uvAcfg") {
            o.uv_acfg = Some(b);
        }
        if let Some(b) = gb("alwaysUv") {
            o.always_uv = Some(b);
        }
        if let Some(b) = gb("authnrCfg") {
            o.authnr_cfg = Some(b);
        }
        if let Some(b) = gb("bioEnroll") {
            o.bio_enroll = Some(b);
        }
        if let Some(b) = gb("uvBioEnroll") {
            o.uv_bio_enroll = Some(b);
        }
        if let Some(b) = gb("setMinPINLength") {
            o.set_min_pin_length = Some(b);
        }
        if let Some(b) = gb("makeCredUvNotRqd") {
            o.make_cred_uv_not_rqd = Some(b);
        }
        if let Some(b) = gb("credentialMgmtPreview") {
            o.credential_mgmt_preview = Some(b);
        }
        if let Some(b) = gb("userVerificationMgmtPreview") {
            o.user_verification_mgmt_preview = Some(b);
        }
        if let Some(b) = gb("noMcGaPermissionsWithClientPin") {
            o.no_mc_ga_permissions_with_client_pin = Some(b);
        }
    }
    o
}

#[cfg(feature = "g")]
pub fn build_certifications(v: &V) -> get_info::Certifications {
    // #[non_exhaustive] without Default: a dependent crate obtains one by decoding `{}`
    let mut c: get_info::Certifications = cbor_smol::cbor_deserialize(&[0xa0]).expect("empty certifications");
    set(&mut c.fido, v, "FIDO", num);
    set(&mut c.cc_eal, v, "CC-EAL", num);
    set(&mut c.fips_cmpv2, v, "FIPS-CMVP-2", num);
    set(&mut c.fips_cmpv3, v, "FIPS-CMVP-3", num);
    set(&mut c.fips_cmpv2_phy, v, "FIPS-CMVP-2-PHY", num);
    set(&mut c.fips_cmpv3_phy, v, "FIPS-CMVP-3-PHY", num);
    c
}

pub fn build_get_info(v: &V) -> get_info::Response {
    let mut r = get_info::ResponseBuilder {
        versions: vec_of(req(v, "versions"), text_enum),
        aaguid: bytes_n(req(v, "aaguid")),
    }
    .build();
    set(&mut r.extensions, v, "extensions", |l| vec_of(l, text_enum));
    set(&mut r.options, v, "options", build_ctap_options);
    set(&mut r.max_msg_size, v, "maxMsgSize", num);
    set(&mut r.pin_protocols, v, "pinUvAuthProtocols", |l| vec_of(l, num));
    set(&mut r.max_creds_in_list, v, "maxCredentialCountInList", num);
    set(&mut r.max_cred_id_length, v, "maxCredentialIdLength", num);
    set(&mut r.transports, v, "transports", |l| vec_of(l, text_enum));
    set(&mut r.algorithms, v, "algorithms", build_known_params);
    set(&mut r.max_serialized_large_blob_array, v, "maxSerializedLargeBlobArray", num);
    #[cfg(feature = "g")]
    {
        set(&mut r.force_pin_change, v, "forcePINChange", |x| x.as_bool().unwrap());
        set(&mut r.min_pin_length, v, "minPINLength", num);
        set(&mut r.firmware_version, v, "firmwareVersion", num);
        set(&mut r.max_cred_blob_length, v, "maxCredBlobLength", num);
        set(&mut r.max_rpids_for_set_min_pin_length, v, "maxRPIDsForSetMinPINLength", num);
        set(&mut r.preferred_platform_uv_attempts, v, "preferredPlatformUvAttempts", num);
        set(&mut r.uv_modality, v, "uvModality", num);
        set(&mut r.certifications, v, "certifications", build_certifications);
        set(&mut r.remaining_discoverable_credentials, v, "remainingDiscoverableCredentials", num);
        set(&mut r.vendor_prototype_config_commands, v, "vendorPrototypeConfigCommands", num);
        set(&mut r.attestation_formats, v, "attestationFormats", |l| vec_of(l, text_enum));
        set(&mut r.uv_count_since_last_pin_entry, v, "uvCountSinceLastPinEntry", num);
        set(&mut r.long_touch_for_reset, v, "longTouchForReset", |x| x.as_bool().unwrap());
    }
    r
}

pub fn build_mc_response(v: &V) -> make_credential::Response {
    let mut r = make_credential::ResponseBuilder {
        fmt: text_enum(req(v, "fmt")),
        auth_data: bytes_n(req(v, "authData")),
    }
    .build();
    set(&mut r.att_stmt, v, "attStmt", build_att_stmt);
    set(&mut r.ep_att, v, "epAtt", |x| x.as_bool().unwrap());
    set(&mut r.large_blob_key, v, "largeBlobKey", byte_array);
    r
}

pub fn build_ga_response(v: &V) -> get_assertion::Response {
    let mut r = get_assertion::ResponseBuilder {
        credential: build_descriptor(req(v, "credential")),
        auth_data: bytes_n(req(v, "authData")),
        signature: bytes_n(req(v, "signature")),
    }
    .build();
    set(&mut r.user, v, "user", build_user);
    set(&mut r.number_of_credentials, v, "numberOfCredentials", num);
    set(&mut r.user_selected, v, "userSelected", |x| x.as_bool().unwrap());
    set(&mut r.large_blob_key, v, "largeBlobKey", byte_array);
    set(&mut r.unsigned_extension_outputs, v, "unsignedExtensionOutputs", |_| cbor_smol::cbor_deserialize(&[0xa0]).expect("empty unsigned extension outputs"));
    set(&mut r.ep_att, v, "epAtt", |x| x.as_bool().unwrap());
    set(&mut r.att_stmt, v, "attStmt", build_att_stmt);
    r
}

pub fn build_cp_response(v: &V) -> client_pin::Response {
    let mut r = client_pin::Response::default();
    set(&mut r.key_agreement, v, "keyAgreement", build_ecdh);
    set(&mut r.pin_token, v, "pinUvAuthToken", bytes_n);
    set(&mut r.retries, v, "pinRetries", num);
    set(&mut r.power_cycle_state, v, "powerCycleState", |x| x.as_bool().unwrap());
    set(&mut r.uv_retries, v, "uvRetries", num);
    r
}

pub fn build_cred_protect(v: &V) -> credential_management::CredentialProtectionPolicy {
    let n: u8 = num(v);
    credential_management::CredentialProtectionPolicy::try_from(n).expect("policy")
}

pub fn build_cm_response(v: &V) -> credential_management::Response {
    let mut r = credential_management::Response::default();
    set(&mut r.existing_resident_credentials_count, v, "existingResidentCredentialsCount", num);
    set(&mut r.max_possible_remaining_residential_credentials_count, v, "maxPossibleRemainingResidentCredentialsCount", num);
    set(&mut r.rp, v, "rp", build_rp);
    set(&mut r.rp_id_hash, v, "rpIDHash", byte_array);
    set(&mut r.total_rps, v, "totalRPs", num);
    set(&mut r.user, v, "user", build_user);
    set(&mut r.credential_id, v, "credentialID", build_descriptor);
    set(&mut r.public_key, v, "publicKey", build_public_key);
    set(&mut r.total_credentials, v, "totalCredentials", num);
    set(&mut r.cred_protect, v, "credProtect", build_cred_protect);
    set(&mut r.large_blob_key, v, "largeBlobKey", byte_array);
    #[cfg(feature = "t")]
    {
        set(&mut r.third_party_payment, v, "thirdPartyPayment", |x| x.as_bool().unwrap());
    }
    r
}

pub fn build_lb_response(v: &V) -> large_blobs::Response {
    let mut r = large_blobs::Response::default();
    set(&mut r.config, v, "config", bytes_n);
    r
}

pub fn build_mc_ext(v: &V) -> make_credential::Extensions {
    let mut e = make_credential::Extensions::default();
    set(&mut e.cred_protect, v, "credProtect", num);
    set(&mut e.hmac_secret, v, "hmac-secret", |x| x.as_bool().unwrap());
    set(&mut e.large_blob_key, v, "largeBlobKey", |x| x.as_bool().unwrap());
    #[cfg(feature = "t")]
    {
        set(&mut e.third_party_payment, v, "thirdPartyPayment", |x| x.as_bool().unwrap());
    }
    e
}

pub fn build_ga_ext_out(v: &V) -> get_assertion::ExtensionsOutput {
    let mut e = get_assertion::ExtensionsOutput::default();
    set(&mut e.hmac_secret, v, "hmac-secret", bytes_n);
    #[cfg(feature = "t")]
    {
        set(&mut e.third_party_payment, v, "thirdPartyPayment", |x| x.as_bool().unwrap());
    }
    e
}
