//! Shared run-time: evidence accumulation, violation records and known findings, panic guard,
//! crash breadcrumbs, the stateless product explorer (PX).

use serde_json::{json, Value};
use std::cell::Cell;
use std::collections::BTreeMap;
use std::panic::{catch_unwind, AssertUnwindSafe};
use std::sync::atomic::{AtomicBool, AtomicI32, AtomicU64, AtomicUsize, Ordering};
use std::sync::Mutex;

// ------------------------------------------------------------------ verdicts

#[derive(Clone, Debug)]
pub struct Verdict {
    pub ok: bool,
    /// cause-level signature (not the input): used for known-finding matching
    pub signature: String,
    pub expected: String,
    pub observed: String,
}

impl Verdict {
    pub fn pass() -> Verdict {
        Verdict {
            ok: true,
            signature: String::new(),
            expected: String::new(),
            observed: String::new(),
        }
    }
    pub fn fail(signature: impl Into<String>, expected: impl Into<String>, observed: impl Into<String>) -> Verdict {
        Verdict {
            ok: false,
            signature: signature.into(),
            expected: expected.into(),
            observed: observed.into(),
        }
    }
}

#[derive(Clone, Debug)]
pub struct Violation {
    pub signature: String,
    pub expected: String,
    pub observed: String,
    /// self-contained replay case: {"kind": ..., ...}
    pub case: Value,
    pub space: String,
}

#[derive(Clone, Debug)]
pub struct Known {
    pub property: String,
    pub signature: String,
    pub what: String,
    pub status: String,
}

#[derive(Clone, Debug, Default)]
pub struct SpaceStat {
    pub name: String,
    pub engine: String,
    pub states: u64,
    pub transitions: u64,
    pub max_depth: u64,
    /// closed-form size the driver claims for this space (vacuity guard), if any
    pub expected_states: Option<u64>,
    pub exhaustive: bool,
    pub note: String,
}

pub struct Ctx {
    pub property: String,
    pub cfg: String,
    pub tier: String,
    pub known: Vec<Known>,
    pub inner: Mutex<Inner>,
    pub workers: usize,
}

#[derive(Default)]
pub struct Inner {
    pub spaces: Vec<SpaceStat>,
    pub evaluations: u64,
    pub nontrivial: u64,
    pub histogram: BTreeMap<String, u64>,
    pub samples: Vec<Value>,
    pub violations: Vec<Violation>,
    pub violation_count: u64,
    pub known_hits: BTreeMap<String, (String, u64)>,
    pub assumptions: Vec<String>,
    pub notes: Vec<String>,
    pub machinery_errors: Vec<String>,
    pub rule: String,
}

impl Ctx {
    pub fn new(property: &str, cfg: &str, tier: &str, known: Vec<Known>) -> Ctx {
        Ctx {
            property: property.to_string(),
            cfg: cfg.to_string(),
            tier: tier.to_string(),
            known,
            inner: Mutex::new(Inner::default()),
            workers: std::env::var("CTAPMC_WORKERS").ok().and_then(|s| s.parse().ok()).unwrap_or_else(|| std::thread::available_parallelism().map(|n| n.get()).unwrap_or(4).min(16)),
        }
    }
    pub fn thorough(&self) -> bool {
        self.tier == "thorough"
    }
    pub fn is_known(&self, signature: &str) -> Option<&Known> {
        self.known
            .iter()
            .find(|k| k.property == self.property && k.signature == signature && k.status == "known")
    }
    /// Record a failed verdict. Returns true if it counts as a new (unlisted) violation.
    pub fn report(&self, space: &str, v: &Verdict, case: Value) -> bool {
        let mut g = self.inner.lock().unwrap();
        if let Some(k) = self.is_known(&v.signature) {
            let e = g
                .known_hits
                .entry(v.signature.clone())
                .or_insert((k.what.clone(), 0));
            e.1 += 1;
            return false;
        }
        g.violation_count += 1;
        let same = g.violations.iter().filter(|x| x.signature == v.signature).count();
        if same < 3 && g.violations.len() < 40 {
            g.violations.push(Violation {
                signature: v.signature.clone(),
                expected: v.expected.clone(),
                observed: v.observed.clone(),
                case,
                space: space.to_string(),
            });
        }
        true
    }
    pub fn known_hit(&self, signature: &str, n: u64) {
        if let Some(k) = self.is_known(signature) {
            let mut g = self.inner.lock().unwrap();
            let e = g.known_hits.entry(signature.to_string()).or_insert((k.what.clone(), 0));
            e.1 += n;
        }
    }
    pub fn machinery(&self, msg: String) {
        self.inner.lock().unwrap().machinery_errors.push(msg);
    }
    pub fn space(&self, s: SpaceStat) {
        let mut g = self.inner.lock().unwrap();
        if let Some(e) = s.expected_states {
            if e != s.states {
                g.machinery_errors.push(format!(
                    "vacuity guard: space {} explored {} states, closed form says {}",
                    s.name, s.states, e
                ));
            }
        }
        g.spaces.push(s);
    }
    pub fn hist(&self, key: &str, n: u64) {
        *self.inner.lock().unwrap().histogram.entry(key.to_string()).or_insert(0) += n;
    }
    pub fn merge_hist(&self, h: &BTreeMap<String, u64>) {
        let mut g = self.inner.lock().unwrap();
        for (k, v) in h {
            *g.histogram.entry(k.clone()).or_insert(0) += v;
        }
    }
    pub fn count(&self, evaluations: u64, nontrivial: u64) {
        let mut g = self.inner.lock().unwrap();
        g.evaluations += evaluations;
        g.nontrivial += nontrivial;
    }
    pub fn sample(&self, v: Value) {
        let mut g = self.inner.lock().unwrap();
        if g.samples.len() < 24 {
            g.samples.push(v);
        }
    }
    pub fn assume(&self, s: &str) {
        let mut g = self.inner.lock().unwrap();
        if !g.assumptions.iter().any(|x| x == s) {
            g.assumptions.push(s.to_string());
        }
    }
    pub fn note(&self, s: String) {
        self.inner.lock().unwrap().notes.push(s);
    }
    pub fn rule(&self, s: &str) {
        self.inner.lock().unwrap().rule = s.to_string();
    }
    /// the histogram must contain each of these outcome classes (vacuity guard)
    pub fn require_outcomes(&self, keys: &[&str]) {
        let mut g = self.inner.lock().unwrap();
        for k in keys {
            if g.histogram.get(*k).copied().unwrap_or(0) == 0 {
                let msg = format!("vacuity guard: outcome class '{}' never observed", k);
                g.machinery_errors.push(msg);
            }
        }
    }
    pub fn to_json(&self, wall_s: f64) -> Value {
        let g = self.inner.lock().unwrap();
        let states: u64 = g.spaces.iter().map(|s| s.states).sum();
        let transitions: u64 = g.spaces.iter().map(|s| s.transitions).sum();
        json!({
            "property_id": self.property,
            "cfg": self.cfg,
            "tier": self.tier,
            "wall_s": wall_s,
            "states": states,
            "transitions": transitions,
            "evaluations": g.evaluations,
            "distinct_nontrivial": g.nontrivial,
            "rule": g.rule,
            "exhaustive": g.spaces.iter().all(|s| s.exhaustive),
            "spaces": g.spaces.iter().map(|s| json!({
                "name": s.name, "engine": s.engine, "states": s.states, "transitions": s.transitions,
                "max_depth": s.max_depth, "expected_states": s.expected_states, "exhaustive": s.exhaustive,
                "note": s.note,
            })).collect::<Vec<_>>(),
            "histogram": g.histogram,
            "samples": g.samples,
            "assumptions": g.assumptions,
            "notes": g.notes,
            "violation_count": g.violation_count,
            "violations": g.violations.iter().map(|v| json!({
                "signature": v.signature, "expected": v.expected, "observed": v.observed,
                "case": v.case, "space": v.space,
            })).collect::<Vec<_>>(),
            "known_hits": g.known_hits.iter().map(|(k, (what, n))| json!({
                "signature": k, "what": what, "count": n,
            })).collect::<Vec<_>>(),
            "machinery_errors": g.machinery_errors,
        })
    }
}

pub fn load_known(path: Option<&str>) -> Vec<Known> {
    let Some(path) = path else { return vec![] };
    let Ok(text) = std::fs::read_to_string(path) else {
        return vec![];
    };
    let v: Value = serde_json::from_str(&text).expect("known_findings.json is not valid JSON");
    let mut out = Vec::new();
    for e in v["findings"].as_array().cloned().unwrap_or_default() {
        let sig = e["signature"].as_str().unwrap_or("").to_string();
        let what = e["what"].as_str().unwrap_or("").to_string();
        let status = e["status"].as_str().unwrap_or("").to_string();
        for p in e["properties"].as_array().cloned().unwrap_or_default() {
            out.push(Known {
                property: p.as_str().unwrap_or("").to_string(),
                signature: sig.clone(),
                what: what.clone(),
                status: status.clone(),
            });
        }
    }
    out
}

// ------------------------------------------------------------------ panic guard

thread_local! {
    static LAST_PANIC: Cell<Option<String>> = const { Cell::new(None) };
    static SLOT_ID: Cell<usize> = const { Cell::new(0) };
}

pub fn install_panic_hook() {
    std::panic::set_hook(Box::new(|info| {
        let msg = if let Some(s) = info.payload().downcast_ref::<&str>() {
            s.to_string()
        } else if let Some(s) = info.payload().downcast_ref::<String>() {
            s.clone()
        } else {
            "<non-string panic payload>".to_string()
        };
        let loc = info
            .location()
            .map(|l| {
                let f = l.file();
                let short = f.rsplit("registry/src/").next().unwrap_or(f);
                let short = short.splitn(2, '/').nth(1).filter(|_| f.contains("registry/src/")).unwrap_or(f);
                format!("{}:{}", short, l.line())
            })
            .unwrap_or_default();
        if std::env::var("CTAPMC_LOUD").is_ok() {
            eprintln!("panic at {}: {}", loc, msg);
        }
        LAST_PANIC.with(|c| c.set(Some(format!("{} @ {}", msg, loc))));
    }));
}

/// Run `f`; an unwinding panic inside is returned as Err(message @ location).
pub fn guard<T>(f: impl FnOnce() -> T) -> Result<T, String> {
    match catch_unwind(AssertUnwindSafe(f)) {
        Ok(v) => Ok(v),
        Err(_) => Err(LAST_PANIC.with(|c| c.take()).unwrap_or_else(|| "panic".into())),
    }
}

/// Panics raised by the harness itself (not inside a `guard`) are machinery failures; this
/// helper makes the intent explicit at call sites that must not be mistaken for subject faults.
pub fn machinery_panic(msg: &str) -> ! {
    eprintln!("MACHINERY: {}", msg);
    std::process::exit(2)
}

// ------------------------------------------------------------------ crash breadcrumbs

const N_SLOTS: usize = 64;
const SLOT_CAP: usize = 8192;

struct Slot {
    len: AtomicUsize,
    tag: AtomicU64,
    /// value of the one-second ticker when the current input was handed over
    epoch: AtomicU64,
    buf: std::cell::UnsafeCell<[u8; SLOT_CAP]>,
}
unsafe impl Sync for Slot {}

#[allow(clippy::declare_interior_mutable_const)]
const EMPTY_SLOT: Slot = Slot {
    len: AtomicUsize::new(usize::MAX),
    tag: AtomicU64::new(0),
    epoch: AtomicU64::new(0),
    buf: std::cell::UnsafeCell::new([0; SLOT_CAP]),
};
static SLOTS: [Slot; N_SLOTS] = [EMPTY_SLOT; N_SLOTS];
static CRASH_FD: AtomicI32 = AtomicI32::new(-1);
/// seconds since the crash handler was installed (a ticker thread counts them)
static EPOCH: AtomicU64 = AtomicU64::new(0);
static IN_HANDLER: AtomicBool = AtomicBool::new(false);

pub fn set_slot(id: usize) {
    SLOT_ID.with(|c| c.set(id % N_SLOTS));
}

/// Remember the input about to be handed to the subject (per worker), so that a non-unwinding
/// failure (abort, stack overflow, stall) can still be attributed to an input.
#[inline]
pub fn breadcrumb(tag: u64, bytes: &[u8]) {
    let id = SLOT_ID.with(|c| c.get());
    let s = &SLOTS[id];
    let n = bytes.len().min(SLOT_CAP);
    s.len.store(usize::MAX, Ordering::Relaxed);
    unsafe {
        std::ptr::copy_nonoverlapping(bytes.as_ptr(), (*s.buf.get()).as_mut_ptr(), n);
    }
    s.tag.store(tag, Ordering::Relaxed);
    s.epoch.store(EPOCH.load(Ordering::Relaxed), Ordering::Relaxed);
    s.len.store(n, Ordering::Release);
}

pub fn clear_breadcrumb() {
    let id = SLOT_ID.with(|c| c.get());
    SLOTS[id].len.store(usize::MAX, Ordering::Release);
}

fn write_all(fd: i32, mut b: &[u8]) {
    while !b.is_empty() {
        let n = unsafe { libc::write(fd, b.as_ptr() as *const libc::c_void, b.len()) };
        if n <= 0 {
            return;
        }
        b = &b[n as usize..];
    }
}

fn dump_slot(fd: i32, sig: i32, id: usize, culprit: bool) {
    let s = &SLOTS[id];
    let n = s.len.load(Ordering::Acquire);
    if n == usize::MAX {
        return;
    }
    let mut line = [0u8; 96];
    let mut p = 0;
    let mut put = |b: &[u8], line: &mut [u8; 96], p: &mut usize| {
        for x in b {
            if *p < 96 {
                line[*p] = *x;
                *p += 1;
            }
        }
    };
    let num = |mut v: u64, line: &mut [u8; 96], p: &mut usize| {
        let mut d = [0u8; 20];
        let mut i = 20;
        if v == 0 {
            i -= 1;
            d[i] = b'0';
        }
        while v > 0 {
            i -= 1;
            d[i] = b'0' + (v % 10) as u8;
            v /= 10;
        }
        for x in &d[i..] {
            if *p < 96 {
                line[*p] = *x;
                *p += 1;
            }
        }
    };
    put(b"CRASH sig=", &mut line, &mut p);
    num(sig as u64, &mut line, &mut p);
    put(b" culprit=", &mut line, &mut p);
    num(culprit as u64, &mut line, &mut p);
    put(b" slot=", &mut line, &mut p);
    num(id as u64, &mut line, &mut p);
    put(b" tag=", &mut line, &mut p);
    num(s.tag.load(Ordering::Relaxed), &mut line, &mut p);
    put(b" age=", &mut line, &mut p);
    num(EPOCH.load(Ordering::Relaxed).saturating_sub(s.epoch.load(Ordering::Relaxed)), &mut line, &mut p);
    put(b" input=", &mut line, &mut p);
    write_all(fd, &line[..p]);
    let buf = unsafe { &*s.buf.get() };
    let hexd = b"0123456789abcdef";
    let mut chunk = [0u8; 512];
    let mut c = 0;
    for x in &buf[..n] {
        chunk[c] = hexd[(x >> 4) as usize];
        chunk[c + 1] = hexd[(x & 15) as usize];
        c += 2;
        if c == 512 {
            write_all(fd, &chunk);
            c = 0;
        }
    }
    write_all(fd, &chunk[..c]);
    write_all(fd, b"\n");
}

extern "C" fn on_signal(sig: i32) {
    if IN_HANDLER.swap(true, Ordering::SeqCst) {
        unsafe { libc::_exit(70) }
    }
    let fd = CRASH_FD.load(Ordering::SeqCst);
    if fd >= 0 {
        if sig == libc::SIGTERM || sig == libc::SIGALRM {
            for id in 0..N_SLOTS {
                dump_slot(fd, sig, id, false);
            }
        } else {
            let me = SLOT_ID.with(|c| c.get());
            dump_slot(fd, sig, me, true);
        }
    }
    unsafe { libc::_exit(if sig == libc::SIGTERM || sig == libc::SIGALRM { 71 } else { 70 }) }
}

pub fn install_crash_handler(path: &str) {
    let c = std::ffi::CString::new(path).unwrap();
    let fd = unsafe { libc::open(c.as_ptr(), libc::O_WRONLY | libc::O_CREAT | libc::O_TRUNC, 0o644) };
    if fd < 0 {
        machinery_panic("cannot open crash file");
    }
    CRASH_FD.store(fd, Ordering::SeqCst);
    std::thread::spawn(|| loop {
        std::thread::sleep(std::time::Duration::from_secs(1));
        EPOCH.fetch_add(1, Ordering::Relaxed);
    });
    unsafe {
        for sig in [libc::SIGABRT, libc::SIGSEGV, libc::SIGBUS, libc::SIGILL, libc::SIGFPE, libc::SIGTERM, libc::SIGALRM] {
            let mut sa: libc::sigaction = std::mem::zeroed();
            sa.sa_sigaction = on_signal as usize;
            sa.sa_flags = libc::SA_ONSTACK;
            libc::sigemptyset(&mut sa.sa_mask);
            libc::sigaction(sig, &sa, std::ptr::null_mut());
        }
    }
}

// ------------------------------------------------------------------ PX: stateless product explorer

#[derive(Default, Clone)]
pub struct Local {
    pub evaluations: u64,
    pub nontrivial: u64,
    pub hist: BTreeMap<&'static str, u64>,
    /// first failing point of this worker, in enumeration order
    pub first_fail: Option<(u64, Verdict, Value)>,
    pub fails: u64,
    pub known: BTreeMap<String, u64>,
    pub worker: usize,
}

impl Local {
    #[inline]
    pub fn bump(&mut self, key: &'static str) {
        *self.hist.entry(key).or_insert(0) += 1;
    }
    pub fn fail(&mut self, ctx: &Ctx, idx: u64, v: Verdict, case: impl FnOnce() -> Value) {
        if ctx.is_known(&v.signature).is_some() {
            *self.known.entry(v.signature).or_insert(0) += 1;
            return;
        }
        self.fails += 1;
        if self.first_fail.is_none() {
            self.first_fail = Some((idx, v, case()));
        }
    }
}

pub const STACK: usize = 8 << 20;

/// Enumerate the points 0..total of a product space, statically partitioned by stride
/// over the workers (deterministic). `f(idx, local)` evaluates one point.
/// Failures with signatures not listed as known are recorded in `ctx` (first per worker plus
/// totals); exploration always runs to completion so coverage numbers stay meaningful.
pub fn sweep<F>(ctx: &Ctx, name: &str, total: u64, note: &str, f: F)
where
    F: Fn(u64, &mut Local) + Sync,
{
    sweep_workers(ctx, ctx.workers, name, total, note, f)
}

/// single-worker variant: points are evaluated strictly in index order on one thread (used for
/// call-sequence spaces, where what ran before a call is part of the state)
pub fn sweep_seq<F>(ctx: &Ctx, name: &str, total: u64, note: &str, f: F)
where
    F: Fn(u64, &mut Local) + Sync,
{
    sweep_workers(ctx, 1, name, total, note, f)
}

fn sweep_workers<F>(ctx: &Ctx, max_workers: usize, name: &str, total: u64, note: &str, f: F)
where
    F: Fn(u64, &mut Local) + Sync,
{
    let t_start = std::time::Instant::now();
    let workers = (max_workers as u64).min(total.max(1)) as usize;
    let chunk = total.div_ceil(workers as u64);
    let mut locals: Vec<Local> = Vec::new();
    std::thread::scope(|s| {
        let mut hs = Vec::new();
        for w in 0..workers {
            let f = &f;
            let h = std::thread::Builder::new()
                .stack_size(STACK)
                .spawn_scoped(s, move || {
                    set_slot(w + 1);
                    let mut local = Local {
                        worker: w,
                        ..Default::default()
                    };
                    // strided partition: worker w evaluates w, w+W, w+2W, ... (deterministic,
                    // and balances spaces whose cost depends on the leading coordinates)
                    let _ = chunk;
                    let mut i = w as u64;
                    while i < total {
                        f(i, &mut local);
                        local.evaluations += 1;
                        i += workers as u64;
                    }
                    clear_breadcrumb();
                    local
                })
                .unwrap();
            hs.push(h);
        }
        for h in hs {
            match h.join() {
                Ok(l) => locals.push(l),
                Err(_) => machinery_panic("worker thread panicked outside a guard"),
            }
        }
    });
    let mut evals = 0;
    let mut nontrivial = 0;
    let mut hist: BTreeMap<String, u64> = BTreeMap::new();
    locals.sort_by_key(|l| l.worker);
    for l in &locals {
        evals += l.evaluations;
        nontrivial += l.nontrivial;
        for (k, v) in &l.hist {
            *hist.entry(k.to_string()).or_insert(0) += v;
        }
        for (sig, n) in &l.known {
            ctx.known_hit(sig, *n);
        }
        if let Some((idx, v, case)) = &l.first_fail {
            let mut case = case.clone();
            if let Some(o) = case.as_object_mut() {
                o.insert("space".into(), json!(name));
                o.insert("index".into(), json!(idx));
            }
            let counted = ctx.report(name, v, case);
            if counted && l.fails > 1 {
                ctx.note(format!("space {}: worker {} saw {} failing points (first kept)", name, l.worker, l.fails));
            }
        }
    }
    ctx.merge_hist(&hist);
    ctx.count(evals, nontrivial);
    ctx.space(SpaceStat {
        name: name.to_string(),
        engine: "PX".into(),
        states: evals,
        transitions: evals,
        max_depth: 1,
        expected_states: Some(total),
        exhaustive: true,
        note: format!("{} [{:.2}s]", note, t_start.elapsed().as_secs_f64()),
    });
}

/// mixed-radix decoding of a point index
pub fn unrank(mut idx: u64, radices: &[u64], out: &mut [u64]) {
    for (i, r) in radices.iter().enumerate().rev() {
        out[i] = idx % r;
        idx /= r;
    }
}

pub fn product(radices: &[u64]) -> u64 {
    radices.iter().product()
}

/// Call-sequence space: for every ordered pair (a, b) of `items`, call a and then b on one thread;
/// the outcome of b must be the same whatever ran before it (no state carried across calls).
/// The reference outcome of b is the one observed right after item 0.
pub fn pair_histories(ctx: &Ctx, prop: &str, name: &str, note: &str, items: &[(String, Box<dyn Fn() -> String + Sync>)]) {
    let n = items.len() as u64;
    if n < 2 {
        return;
    }
    let run = |i: usize| -> String {
        match guard(|| (items[i].1)()) {
            Ok(s) => s,
            Err(p) => format!("PANIC {}", p),
        }
    };
    let mut baseline: Vec<String> = Vec::with_capacity(items.len());
    for b in 0..items.len() {
        let _ = run(0);
        baseline.push(run(b));
    }
    let base = &baseline;
    let prop = prop.to_string();
    sweep_seq(ctx, name, n * n, note, move |idx, l| {
        let a = (idx / n) as usize;
        let b = (idx % n) as usize;
        l.nontrivial += 1;
        let _ = run(a);
        let got = run(b);
        l.bump("call pair");
        if got != base[b] {
            let v = Verdict::fail(format!("{}|result-depends-on-previous-call", prop), format!("{} (as after {})", base[b], items[0].0), format!("{} after {}", got, items[a].0));
            l.fail(ctx, idx, v, || serde_json::json!({"kind": "call-pair", "first": items[a].0, "second": items[b].0, "note": "re-run the check to replay: the outcome depends on process history"}));
        }
    });
}
