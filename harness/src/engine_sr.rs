//! SR: explicit-state exploration with stateright. A `Space` describes states, actions and the
//! per-state check; every check runs the real implementation. Unlisted violations make the
//! `always` property false (stateright then reports the shortest path it found); known findings
//! are counted and exploration continues, so coverage stays complete.

use crate::core::{Ctx, SpaceStat, Verdict};
use serde_json::Value;
use stateright::{Checker, Model, Property};
use std::fmt::Debug;
use std::hash::Hash;
use std::sync::atomic::{AtomicU64, Ordering};
use std::sync::Mutex;

pub trait Space: Send + Sync + 'static {
    type S: Clone + Debug + Hash + Eq + Send + Sync + 'static;
    type A: Clone + Debug + PartialEq + Send + Sync + 'static;
    fn name(&self) -> String;
    fn init(&self) -> Vec<Self::S>;
    fn actions(&self, s: &Self::S, out: &mut Vec<Self::A>);
    fn next(&self, s: &Self::S, a: &Self::A) -> Option<Self::S>;
    /// evaluate the oracle in state `s` against the real code
    fn check(&self, s: &Self::S) -> Verdict;
    /// self-contained replay case for state `s`
    fn case(&self, s: &Self::S) -> Value;
    fn nontrivial(&self, _s: &Self::S) -> bool {
        true
    }
    fn outcome(&self, _s: &Self::S) -> &'static str {
        "checked"
    }
}

pub struct Adapter<P: Space> {
    pub space: P,
    pub ctx: &'static Ctx,
    pub evals: AtomicU64,
    pub nontrivial: AtomicU64,
    pub fails: Mutex<Vec<(P::S, Verdict)>>,
}

impl<P: Space> Model for Adapter<P> {
    type State = P::S;
    type Action = P::A;
    fn init_states(&self) -> Vec<P::S> {
        self.space.init()
    }
    fn actions(&self, s: &P::S, out: &mut Vec<P::A>) {
        self.space.actions(s, out)
    }
    fn next_state(&self, s: &P::S, a: P::A) -> Option<P::S> {
        self.space.next(s, &a)
    }
    fn properties(&self) -> Vec<Property<Self>> {
        vec![Property::always("oracle", |m: &Adapter<P>, s: &P::S| {
            m.evals.fetch_add(1, Ordering::Relaxed);
            if m.space.nontrivial(s) {
                m.nontrivial.fetch_add(1, Ordering::Relaxed);
            }
            let v = m.space.check(s);
            if v.ok {
                return true;
            }
            if m.ctx.is_known(&v.signature).is_some() {
                m.ctx.known_hit(&v.signature, 1);
                return true;
            }
            // determinism: re-evaluate before reporting
            let v2 = m.space.check(s);
            if v2.ok || v2.signature != v.signature || v2.observed != v.observed {
                m.ctx.machinery(format!(
                    "non-deterministic verdict in space {} state {:?}: {:?} then {:?}",
                    m.space.name(),
                    s,
                    v,
                    v2
                ));
                return true;
            }
            m.fails.lock().unwrap().push((s.clone(), v));
            false
        })]
    }
}

/// Explore `space` completely (BFS, one checker thread: deterministic, shortest counterexample).
/// `expected_states`: closed-form size for the vacuity guard.
pub fn explore<P: Space>(ctx: &'static Ctx, space: P, expected_states: Option<u64>, note: &str) {
    let name = space.name();
    let adapter = Adapter {
        space,
        ctx,
        evals: AtomicU64::new(0),
        nontrivial: AtomicU64::new(0),
        fails: Mutex::new(Vec::new()),
    };
    let checker = adapter.checker().threads(1).spawn_bfs().join();
    let m = checker.model();
    let fails = m.fails.lock().unwrap().clone();
    let mut complete = true;
    for (s, v) in &fails {
        let mut case = m.space.case(s);
        if let Some(path) = checker.discovery("oracle") {
            if let Some(o) = case.as_object_mut() {
                let actions: Vec<String> = path.into_actions().iter().map(|a| format!("{:?}", a)).collect();
                o.insert("path".into(), serde_json::json!(actions));
                o.insert("space".into(), serde_json::json!(name));
            }
        }
        ctx.report(&name, v, case);
        complete = false; // stateright stops at the first unlisted violation
    }
    ctx.count(m.evals.load(Ordering::Relaxed), m.nontrivial.load(Ordering::Relaxed));
    ctx.space(SpaceStat {
        name,
        engine: "SR(stateright bfs)".into(),
        states: checker.unique_state_count() as u64,
        transitions: checker.state_count() as u64,
        max_depth: checker.max_depth() as u64,
        expected_states: if complete { expected_states } else { None },
        exhaustive: complete,
        note: note.to_string(),
    });
}
