//! ctapmc: bounded exhaustive exploration of ctap-types (one process per feature configuration).
#![allow(dead_code, unused_imports, unused_variables, function_casts_as_integer, clippy::all)]

mod bind;
mod core;
mod engine_sr;
mod props;
mod refcbor;
mod refmodel;
mod reqcheck;
mod respcheck;
mod spaces;
mod spec;
mod subject;
mod treewalk;

use std::time::Instant;

pub fn cfg_name() -> &'static str {
    if cfg!(feature = "all") {
        "cfg-all"
    } else if cfg!(feature = "arb") {
        "cfg-arb"
    } else {
        match (cfg!(feature = "g"), cfg!(feature = "l"), cfg!(feature = "t")) {
            (false, false, false) => {
                if cfg!(debug_assertions) {
                    "cfg-000"
                } else {
                    "cfg-rel"
                }
            }
            (false, false, true) => "cfg-001",
            (false, true, false) => "cfg-010",
            (false, true, true) => "cfg-011",
            (true, false, false) => "cfg-100",
            (true, false, true) => "cfg-101",
            (true, true, false) => "cfg-110",
            (true, true, true) => "cfg-111",
        }
    }
}

fn arg_value(args: &[String], name: &str) -> Option<String> {
    args.iter().position(|a| a == name).and_then(|i| args.get(i + 1).cloned())
}

fn main() {
    let args: Vec<String> = std::env::args().collect();
    if args.len() < 2 {
        eprintln!("usage: ctapmc run <Cxx> --tier quick|thorough --out <json> [--known <json>] [--crash-file <path>]\n       ctapmc replay <case.json>\n       ctapmc cfg");
        std::process::exit(2);
    }
    core::install_panic_hook();
    match args[1].as_str() {
        "cfg" => println!("{}", cfg_name()),
        "c16-case" => {
            // full outcome of one corpus case in this configuration
            let idx: u64 = args[3].parse().expect("index");
            println!("{}", props::c16::outcome(&args[2], idx));
        }
        "run" => {
            let prop = args[2].clone();
            let tier = arg_value(&args, "--tier").unwrap_or_else(|| "quick".into());
            let out = arg_value(&args, "--out").expect("--out");
            let known = core::load_known(arg_value(&args, "--known").as_deref());
            if let Some(cf) = arg_value(&args, "--crash-file") {
                core::install_crash_handler(&cf);
            }
            let t0 = Instant::now();
            match refcbor::self_check() {
                Ok(_) => {}
                Err(e) => core::machinery_panic(&format!("reference CBOR layer self-check failed: {}", e)),
            }
            let ctx: &'static core::Ctx = Box::leak(Box::new(core::Ctx::new(&prop, cfg_name(), &tier, known)));
            // run the driver on a big-stack thread (deep nesting cases)
            let h = std::thread::Builder::new()
                .stack_size(core::STACK)
                .spawn(move || {
                    core::set_slot(0);
                    props::run(ctx)
                })
                .unwrap();
            if h.join().is_err() {
                core::machinery_panic("driver panicked outside a guard");
            }
            let j = ctx.to_json(t0.elapsed().as_secs_f64());
            std::fs::write(&out, serde_json::to_string_pretty(&j).unwrap()).expect("write evidence");
        }
        "replay" => {
            let text = std::fs::read_to_string(&args[2]).expect("read replay file");
            let j: serde_json::Value = serde_json::from_str(&text).expect("replay JSON");
            let case = if j.get("case").is_some() { j["case"].clone() } else { j.clone() };
            let prop = j["property"].as_str().or(case["property"].as_str()).unwrap_or("").to_string();
            let v = props::replay(&prop, &case);
            println!("property : {}", prop);
            println!("cfg      : {}", cfg_name());
            println!("expected : {}", v.expected);
            println!("observed : {}", v.observed);
            if v.ok {
                println!("REPLAY: the recorded case now satisfies the oracle");
                std::process::exit(0);
            } else {
                println!("REPLAY: violation reproduces, signature={}", v.signature);
                std::process::exit(1);
            }
        }
        _ => {
            eprintln!("unknown subcommand");
            std::process::exit(2);
        }
    }
}
