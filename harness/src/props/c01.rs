//! C01 — CTAP2 request decoding is faithful to the specification's parameter tables.

use crate::core::*;
use crate::engine_sr::explore;
use crate::refcbor::V;
use crate::refmodel::Side;
use crate::reqcheck::*;
use crate::spaces::*;
use crate::spec::*;
use serde_json::{json, Value};

const P: &str = "C01";

fn targets() -> Vec<Target> {
    let mut t: Vec<Target> = PARAM_CMDS.iter().map(|b| Target::Cmd(*b)).collect();
    t.extend(STANDALONE.iter().take(STANDALONE_STRUCTS).map(|n| Target::Alone(n)));
    t
}

pub fn run(ctx: &'static Ctx) {
    ctx.rule("state = (set of present optional members incl. nested, menu-value deviations from the anchor); every state is encoded by the reference CBOR layer, decoded by the real code and compared member by member with the reference decoder; non-trivial = differs from the minimal anchor");
    ctx.assume("well-formed inputs only: canonical CBOR, members within declared limits, values from the boundary menus of DESIGN §3.2");
    ctx.assume("ClientPin parameter 0x01 (pinUvAuthProtocol) is treated as required, as in CTAP 2.0 and in this crate");
    let dev_bound = if ctx.thorough() { 3 } else { 2 };
    for target in targets() {
        let sh = Shared::new(P, target.clone(), Side::Request);
        let full = sh.plan.full_mask();
        // (a) complete presence lattice at default values
        let n = count_masks(&sh.plan, full, 0);
        explore(
            ctx,
            request_lattice(P, &sh, full, 0, None, "(all optional members)"),
            Some(n),
            "complete: every subset of optional members, nested members enabled only under their parent",
        );
        // (b) bounded value deviations from both anchors
        let anchors = if full == 0 { vec![0] } else { vec![0, full] };
        let expect: u64 = anchors.iter().map(|m| count_deviations(&sh.plan, *m, dev_bound)).sum();
        // menu products can be large for big messages: cap the bound where the space explodes
        let dev_cap: u64 = if ctx.thorough() { 25_000_000 } else { 6_000_000 };
        let bound = if expect > dev_cap { dev_bound - 1 } else { dev_bound };
        let expect: u64 = anchors.iter().map(|m| count_deviations(&sh.plan, *m, bound)).sum();
        explore(
            ctx,
            request_deviations(P, &sh, anchors, bound),
            Some(expect),
            &format!("every combination of <= {} leaves moved to another menu value, from the minimal and the full anchor", bound),
        );
        // (c) full menu product at full presence where it is small enough
        let radices: Vec<u64> = sh.plan.leaves.iter().map(|l| l.menu.len() as u64).collect();
        let total: u128 = radices.iter().map(|r| *r as u128).product();
        let cap: u128 = if ctx.thorough() { 60_000_000 } else { 3_000_000 };
        if total <= cap && radices.len() > 1 {
            let total = total as u64;
            let sh2 = sh.clone();
            sweep(ctx, &format!("{} full menu product", target.name()), total, "every combination of menu values of all leaves, all members present", move |idx, l| {
                let mut digits = vec![0u64; radices.len()];
                unrank(idx, &radices, &mut digits);
                let devs: Vec<(usize, usize)> = digits.iter().enumerate().filter(|(_, d)| **d != 0).map(|(i, d)| (i, *d as usize)).collect();
                if devs.len() > 3 {
                    l.nontrivial += 1;
                }
                let wire = sh2.plan.build(full, &devs);
                let v = compare(P, &sh2.target, &wire);
                l.bump(if v.ok { "agree" } else { "disagree" });
                if !v.ok {
                    l.fail(ctx, idx, v, || case_json(&sh2.target, &wire, json!({"product_index": idx})));
                }
            });
        } else {
            ctx.note(format!("{}: full menu product has {} points, not enumerated in this tier (deviation bound {} applies)", target.name(), total, bound));
        }
        // (d) every byte value as an integer and as the content of every string member, and (e) one
        // unusual entry at every position of every descriptor list (complete messages only)
        if let Target::Cmd(_) = target {
            let mut cases: Vec<(usize, V, String)> = Vec::new();
            for (li, info) in sh.plan.leaves.iter().enumerate() {
                match &info.menu[0] {
                    V::U(_) => {
                        let max = info.menu.iter().filter_map(|v| v.as_u64()).max().unwrap_or(0);
                        for x in 0..=255u64 {
                            if x <= max {
                                cases.push((li, V::U(x), format!("uint({})", x)));
                            }
                        }
                    }
                    V::B(d) => {
                        for b in 0..=255u8 {
                            for n in [1usize, 2, d.len()] {
                                cases.push((li, V::B(vec![b; n]), format!("{} bytes of {:#04x}", n, b)));
                            }
                        }
                    }
                    V::T(d) => {
                        for c in (0u32..=255).filter_map(char::from_u32) {
                            for n in [1usize, 2, d.len() / c.len_utf8()] {
                                cases.push((li, V::t(&c.to_string().repeat(n)), format!("U+{:04X} x {}", c as u32, n)));
                            }
                        }
                    }
                    V::A(a) if matches!(a.first(), Some(V::M(m)) if m.iter().any(|(k, _)| *k == V::t("id"))) => {
                        let cap = info.menu.iter().filter_map(|v| v.as_arr().map(|x| x.len())).max().unwrap_or(2);
                        let odd: Vec<(&str, V)> = vec![
                            ("empty id", crate::refmodel::descriptor(90, 0)),
                            ("id of 255 bytes", crate::refmodel::descriptor(91, 255)),
                            ("id of 256 bytes", crate::refmodel::descriptor(92, 256)),
                            ("foreign type", V::M(vec![(V::t("id"), V::B(vec![7; 16])), (V::t("type"), V::t("x"))])),
                            ("empty type", V::M(vec![(V::t("id"), V::B(vec![8; 16])), (V::t("type"), V::t(""))])),
                            ("same id as its neighbours", crate::refmodel::descriptor(0, 16)),
                        ];
                        for n in 1..=cap {
                            for pos in 0..n {
                                for (what, e) in &odd {
                                    let mut items: Vec<V> = (0..n).map(|i| crate::refmodel::descriptor(i, 16 + i % 7)).collect();
                                    items[pos] = e.clone();
                                    cases.push((li, V::A(items), format!("{} at position {} of {}", what, pos, n)));
                                }
                            }
                        }
                    }
                    _ => {}
                }
            }
            let (sh3, cr) = (sh.clone(), &cases);
            sweep(ctx, &format!("{} byte-valued contents and list positions", target.name()), cases.len() as u64, "every leaf of the full anchor: integers 0..=255; byte strings and texts made of one repeated byte / Latin-1 character (every value) at length 1, 2 and the default length; descriptor lists of every length with one unusual entry at every position", move |idx, l| {
                let (li, v, what) = &cr[idx as usize];
                let wire = sh3.plan.build_with(full, &[], &[(*li, v.clone())]);
                // C01 speaks about well-formed requests: a value the reference does not accept for this member is not asserted here
                if !matches!(sh3.target.expect(&wire), crate::subject::Dec::Ok(_)) {
                    l.bump("not well-formed for this member");
                    return;
                }
                l.nontrivial += 1;
                let verdict = compare(P, &sh3.target, &wire);
                l.bump(if verdict.ok { "agree" } else { "disagree" });
                if !verdict.ok {
                    l.fail(ctx, idx, verdict, || case_json(&sh3.target, &wire, json!({"leaf": sh3.plan.leaves[*li].path, "value": what})));
                }
            });
        }
        let w = sh.plan.build(full, &[]);
        if matches!(target, Target::Cmd(0x01) | Target::Cmd(0x0a)) {
            ctx.sample(json!({"target": target.name(), "full_anchor": format!("{:?}", w), "optional_members": sh.plan.opts.len(), "leaves": sh.plan.leaves.len()}));
        }
    }
}

pub fn replay(case: &Value) -> Verdict {
    replay_decode_compare(P, case)
}
