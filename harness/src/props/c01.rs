//! C01 — CTAP2 request decoding is faithful to the specification's parameter tables.

use crate::core::*;
use crate::engine_sr::explore;
use crate::refcbor::V;
use crate::refmodel::Side;
use crate::reqcheck::*;
use crate::spaces::*;
use crate::spec::*;
use serde_json::{json, Value};

const P: &str = "C01";

fn targets() -> Vec<Target> {
    let mut t: Vec<Target> = PARAM_CMDS.iter().map(|b| Target::Cmd(*b)).collect();
    t.extend(STANDALONE.iter().take(STANDALONE_STRUCTS).map(|n| Target::Alone(n)));
    t
}

pub fn run(ctx: &'static Ctx) {
    ctx.rule("state = (set of present optional members incl. nested, menu-value deviations from the anchor); every state is encoded by the reference CBOR layer, decoded by the real code and compared member by member with the reference decoder; non-trivial = differs from the minimal anchor");
    ctx.assume("well-formed inputs only: canonical CBOR, members within declared limits, values from the boundary menus of DESIGN §3.2");
    ctx.assume("ClientPin parameter 0x01 (pinUvAuthProtocol) is treated as required, as in CTAP 2.0 and in this crate");
    let dev_bound = if ctx.thorough() { 3 } else { 2 };
    for target in targets() {
        let sh = Shared::new(P, target.clone(), Side::Request);
        let full = sh.plan.full_mask();
        // (a) complete presence lattice at default values
        let n = count_masks(&sh.plan, full, 0);
        explore(
            ctx,
            request_lattice(P, &sh, full, 0, None, "(all optional members)"),
            Some(n),
            "complete: every subset of optional members, nested members enabled only under their parent",
        );
        // (b) bounded value deviations from both anchors
        let anchors = if full == 0 { vec![0] } else { vec![0, full] };
        let expect: u64 = anchors.iter().map(|m| count_deviations(&sh.plan, *m, dev_bound)).sum();
        // menu products can be large for big messages: cap the bound where the space explodes
        let dev_cap: u64 = if ctx.thorough() { 25_000_000 } else { 6_000_000 };
        let bound = if expect > dev_cap { dev_bound - 1 } else { dev_bound };
        let expect: u64 = anchors.iter().map(|m| count_deviations(&sh.plan, *m, bound)).sum();
        explore(
            ctx,
            request_deviations(P, &sh, anchors, bound),
            Some(expect),
            &format!("every combination of <= {} leaves moved to another menu value, from the minimal and the full anchor", bound),
        );
        // (c) full menu product at full presence where it is small enough
        let radices: Vec<u64> = sh.plan.leaves.iter().map(|l| l.menu.len() as u64).collect();
        let total: u128 = radices.iter().map(|r| *r as u128).product();
        let cap: u128 = if ctx.thorough() { 60_000_000 } else { 3_000_000 };
        if total <= cap && radices.len() > 1 {
            let total = total as u64;
            let sh2 = sh.clone();
            sweep(ctx, &format!("{} full menu product", target.name()), total, "every combination of menu values of all leaves, all members present", move |idx, l| {
                let mut digits = vec![0u64; radices.len()];
                unrank(idx, &radices, &mut digits);
                let devs: Vec<(usize, usize)> = digits.iter().enumerate().filter(|(_, d)| **d != 0).map(|(i, d)| (i, *d as usize)).collect();
                if devs.len() > 3 {
                    l.nontrivial += 1;
                }
                let wire = sh2.plan.build(full, &devs);
                let v = compare(P, &sh2.target, &wire);
                l.bump(if v.ok { "agree" } else { "disagree" });
                if !v.ok {
                    l.fail(ctx, idx, v, || case_json(&sh2.target, &wire, json!({"product_index": idx})));
                }
            });
        } else {
            ctx.note(format!("{}: full menu product has {} points, not enumerated in this tier (deviation bound {} applies)", target.name(), total, bound));
        }
        let w = sh.plan.build(full, &[]);
        if matches!(target, Target::Cmd(0x01) | Target::Cmd(0x0a)) {
            ctx.sample(json!({"target": target.name(), "full_anchor": format!("{:?}", w), "optional_members": sh.plan.opts.len(), "leaves": sh.plan.leaves.len()}));
        }
    }
}

pub fn replay(case: &Value) -> Verdict {
    replay_decode_compare(P, case)
}
