//! C02 — CTAP2 response encoding carries every member under its specified key, exactly.
//! C03 shares the spaces (see c03.rs) with the canonical-form oracle.

use crate::core::*;
use crate::engine_sr::explore;
use crate::refcbor::{hex, V};
use crate::refmodel;
use crate::respcheck::*;
use crate::spaces::*;
use ctap_types::ctap2;
use serde_json::{json, Value};
use std::sync::Arc;

const P: &str = "C02";

pub type Oracle = fn(&'static str, RKind, &V, &[u8]) -> Verdict;

fn eval(prop: &'static str, oracle: Oracle, sh: &RShared, mask: u64, devs: &[(usize, usize)]) -> Verdict {
    let wire = sh.plan.build(mask, devs);
    let bytes = match serialize_wire(sh.kind, &wire) {
        Ok(b) => b,
        Err(p) => return Verdict::fail(format!("{}|{}|panic|{}", prop, sh.kind.name(), p.rsplit(" @ ").next().unwrap_or("")), "no panic", p),
    };
    let v = oracle(prop, sh.kind, &wire, &bytes);
    if !v.ok {
        return v;
    }
    if sh.kind == RKind::GetAssertion && prop == P {
        match serialize_wire(RKind::GetNextAssertion, &wire) {
            Ok(b2) if b2 == bytes => {}
            Ok(b2) => return Verdict::fail(format!("{}|GetNextAssertion|differs-from-GetAssertion", prop), hex(&bytes), hex(&b2)),
            Err(p) => return Verdict::fail(format!("{}|GetNextAssertion|panic", prop), "no panic", p),
        }
    }
    Verdict::pass()
}

fn members_oracle(prop: &'static str, kind: RKind, wire: &V, bytes: &[u8]) -> Verdict {
    check_members(prop, kind, wire, bytes)
}

/// the response spaces, shared with C03 (different oracle)
pub fn explore_responses(ctx: &'static Ctx, prop: &'static str, oracle: Oracle) {
    let cap: u64 = if ctx.thorough() { 12_000_000 } else { 300_000 };
    let dev_bound = if ctx.thorough() { 3 } else { 2 };
    for kind in RKINDS {
        if kind == RKind::GetNextAssertion {
            continue; // compared with GetAssertion state by state
        }
        let sh = RShared::new(prop, kind);
        let plan = Arc::new(sh.plan.clone());
        let full = plan.full_mask();
        let mk_lattice = |free: u64, base: u64, radius: Option<u32>, label: &str| {
            let (a, b) = (sh.clone(), sh.clone());
            Lattice {
                plan: plan.clone(),
                free,
                base,
                radius,
                name: format!("{} response presence lattice {}", kind.name(), label),
                check: Box::new(move |mask| eval(prop, oracle, &a, mask, &[])),
                case: Box::new(move |mask| rcase(b.kind, &b.plan.build(mask, &[]), json!({"mask": b.plan.describe_mask(mask)}))),
            }
        };
        let all = count_masks(&plan, full, 0);
        if all <= cap {
            explore(ctx, mk_lattice(full, 0, None, "(all optional members)"), Some(all), "complete: every subset of optional members incl. nested");
        } else {
            // too large as a whole: top level and each nested map separately, the rest held full
            let tops: u64 = plan.opts.iter().enumerate().filter(|(_, o)| o.parent.is_none()).map(|(i, _)| 1u64 << i).sum();
            let ntop = tops.count_ones();
            if (1u64 << ntop) <= cap {
                explore(ctx, mk_lattice(tops, full, None, "(top-level members, nested maps full)"), Some(1 << ntop), "complete over the top-level members");
            } else {
                explore(
                    ctx,
                    mk_lattice(tops, full, Some(2), "(top-level members within 2 flips of either end, nested maps full)"),
                    Some(count_radius(ntop, 2)),
                    "singletons, pairs, co-singletons, co-pairs, both ends; the complete lattice is in the thorough tier",
                );
            }
            for (pi, parent) in plan.opts.iter().enumerate() {
                let kids: u64 = plan.opts.iter().enumerate().filter(|(_, o)| o.parent == Some(pi)).map(|(i, _)| 1u64 << i).sum();
                if kids != 0 {
                    let n = kids.count_ones();
                    explore(ctx, mk_lattice(kids, full, None, &format!("(members of {}, everything else present)", parent.path)), Some(1 << n), "complete over this nested map");
                    // and with everything else absent (only the parent present)
                    explore(ctx, mk_lattice(kids, 1 << pi, None, &format!("(members of {}, everything else absent)", parent.path)), Some(1 << n), "complete over this nested map");
                }
            }
        }
        // value deviations from both anchors
        let anchors = if full == 0 { vec![0] } else { vec![0, full] };
        let mut bound = dev_bound;
        while bound > 1 && anchors.iter().map(|m| count_deviations(&plan, *m, bound)).sum::<u64>() > cap {
            bound -= 1;
        }
        let expect: u64 = anchors.iter().map(|m| count_deviations(&plan, *m, bound)).sum();
        let (a, b) = (sh.clone(), sh.clone());
        explore(
            ctx,
            Deviations {
                plan: plan.clone(),
                anchors,
                bound,
                name: format!("{} response value deviations <= {}", kind.name(), bound),
                check: Box::new(move |mask, devs| eval(prop, oracle, &a, mask, devs)),
                case: Box::new(move |mask, devs| rcase(b.kind, &b.plan.build(mask, devs), json!({"mask": b.plan.describe_mask(mask), "deviations": describe_devs(&b.plan, devs)}))),
            },
            Some(expect),
            "every combination of leaves moved to another menu value (all five integer head widths, length thresholds), from the minimal and the full anchor",
        );
        // full menu product where small
        let radices: Vec<u64> = plan.leaves.iter().map(|l| l.menu.len() as u64).collect();
        let total: u128 = radices.iter().map(|r| *r as u128).product();
        if total <= (cap as u128) * 4 && radices.len() > 1 {
            let sh2 = sh.clone();
            sweep(ctx, &format!("{} response full menu product", kind.name()), total as u64, "every combination of menu values, all members present", move |idx, l| {
                let mut digits = vec![0u64; radices.len()];
                unrank(idx, &radices, &mut digits);
                let devs: Vec<(usize, usize)> = digits.iter().enumerate().filter(|(_, d)| **d != 0).map(|(i, d)| (i, *d as usize)).collect();
                l.nontrivial += 1;
                let v = eval(prop, oracle, &sh2, full, &devs);
                l.bump(if v.ok { "agree" } else { "disagree" });
                if !v.ok {
                    l.fail(ctx, idx, v, || rcase(sh2.kind, &sh2.plan.build(full, &devs), json!({"product_index": idx})));
                }
            });
        }
        // values whose encoding ends in a byte that has a structural meaning elsewhere (0xA0 empty
        // map, 0x80 empty array, 0x40 / 0x60 empty strings, 0xF6 null, break, ...), in messages where
        // the member is the last one present and where everything is present
        {
            let special: [u8; 12] = [0xa0, 0x80, 0x40, 0x60, 0xf6, 0xf7, 0xff, 0x00, 0xbf, 0x9f, 0xa1, 0x18];
            let mut cases: Vec<(u64, usize, V, String)> = Vec::new();
            let tops: Vec<usize> = plan.opts.iter().enumerate().filter(|(_, o)| o.parent.is_none()).map(|(i, _)| i).collect();
            let mut masks: Vec<u64> = vec![full, 0];
            for (k, t) in tops.iter().enumerate() {
                // this top-level member alone, and all top-level members up to it (nested ones full)
                let nested = |m: u64| -> u64 {
                    let mut m = m;
                    for (i, o) in plan.opts.iter().enumerate() {
                        let mut p = o.parent;
                        while let Some(pp) = p {
                            if m >> pp & 1 == 1 && plan.opts[pp].parent.is_none() {
                                m |= 1u64 << i;
                            }
                            p = plan.opts[pp].parent;
                        }
                    }
                    m
                };
                masks.push(nested(1u64 << t));
                masks.push(nested(tops[..=k].iter().map(|t| 1u64 << t).sum()));
            }
            masks.sort();
            masks.dedup();
            for m in masks {
                if !plan.valid(m) {
                    continue;
                }
                for (li, info) in plan.leaves.iter().enumerate() {
                    if !plan.leaf_enabled(li, m) {
                        continue;
                    }
                    let umax = info.menu.iter().filter_map(|v| if let V::U(x) = v { Some(*x) } else { None }).max();
                    let bmax = info.menu.iter().filter_map(|v| if let V::B(x) = v { Some(x.len()) } else { None }).max();
                    let tmax = info.menu.iter().filter_map(|v| if let V::T(x) = v { Some(x.len()) } else { None }).max();
                    // every byte value where everything / only the required members are present,
                    // the structural ones in the messages that end in this member
                    let all: Vec<u8> = (0..=255).collect();
                    let bytes_here: &[u8] = if m == full || m == 0 { &all } else { &special };
                    for b in bytes_here.iter().copied() {
                        if let Some(mx) = umax {
                            for x in [b as u64, 0x0f00 | b as u64, 0x0100_0000 | b as u64] {
                                if x <= mx {
                                    cases.push((m, li, V::U(x), format!("uint {:#x}", x)));
                                }
                            }
                        } else if let Some(mx) = bmax {
                            // only where the member's other menu values show that the length is free
                            let lens: std::collections::BTreeSet<usize> = info.menu.iter().filter_map(|v| if let V::B(x) = v { Some(x.len()) } else { None }).collect();
                            for n in [1usize, 3, 16, 32] {
                                if n <= mx && (lens.len() > 2 || lens.contains(&n)) {
                                    let mut d = vec![0x5au8; n];
                                    d[n - 1] = b;
                                    cases.push((m, li, V::B(d), format!("{} bytes ending in {:#04x}", n, b)));
                                }
                            }
                        } else if let Some(mx) = tmax {
                            let ch: Option<char> = if b < 0x80 { Some(b as char) } else if (0x80..=0xbf).contains(&b) { char::from_u32(0x80 + (b as u32 - 0x80)) } else { None };
                            let lens: std::collections::BTreeSet<usize> = info.menu.iter().filter_map(|v| if let V::T(x) = v { Some(x.len()) } else { None }).collect();
                            if let Some(ch) = ch {
                                let s = format!("t{}", ch);
                                if s.len() <= mx && lens.len() > 2 {
                                    cases.push((m, li, V::t(&s), format!("text ending in {:#04x}", b)));
                                }
                            }
                        }
                    }
                }
            }
            // every length of every byte-string / text member (chunked copies, packet arithmetic)
            for m in [full, 0] {
                for (li, info) in plan.leaves.iter().enumerate() {
                    if !plan.leaf_enabled(li, m) {
                        continue;
                    }
                    let blens: std::collections::BTreeSet<usize> = info.menu.iter().filter_map(|v| if let V::B(x) = v { Some(x.len()) } else { None }).collect();
                    let tlens: std::collections::BTreeSet<usize> = info.menu.iter().filter_map(|v| if let V::T(x) = v { Some(x.len()) } else { None }).collect();
                    if blens.len() > 2 {
                        for n in 0..=*blens.iter().max().unwrap() {
                            cases.push((m, li, V::B(crate::refmodel::fill_bytes(n, li)), format!("{} bytes", n)));
                        }
                    } else if tlens.len() > 2 {
                        for n in 0..=(*tlens.iter().max().unwrap()).min(300) {
                            cases.push((m, li, V::t(&crate::refmodel::fill_text(n, li)), format!("text of {} bytes", n)));
                        }
                    }
                }
            }
            let (sh3, cr) = (sh.clone(), &cases);
            sweep(ctx, &format!("{} response: values ending in structural bytes", kind.name()), cases.len() as u64, "every leaf x values whose encoding ends in every byte value (everything present / only required members present) resp. in A0 / 80 / 40 / 60 / F6 / F7 / FF / 00 / BF / 9F / A1 / 18 (only the member's own top-level member present; all top-level members up to it present: the value is then the end of the message); every length 0..=capacity of every byte-string and text member", move |idx, l| {
                let (m, li, v, _) = &cr[idx as usize];
                let wire = sh3.plan.build_with(*m, &[], &[(*li, v.clone())]);
                l.nontrivial += 1;
                l.bump("structural final byte");
                let verdict = match refmodel::decode(&sh3.kind.schema(), &wire) {
                    // the reference does not accept this value for the member (an enumeration, an exact length): not a response
                    Err(_) | Ok(None) => return,
                    Ok(Some(_)) => match serialize_wire(sh3.kind, &wire) {
                        Ok(b) => oracle(prop, sh3.kind, &wire, &b),
                        Err(p) => Verdict::fail(format!("{}|{}|panic|{}", prop, sh3.kind.name(), p.rsplit(" @ ").next().unwrap_or("")), "no panic", p),
                    },
                };
                if !verdict.ok {
                    l.fail(ctx, idx, verdict, || rcase(sh3.kind, &wire, json!({"mask": sh3.plan.describe_mask(*m), "leaf": sh3.plan.leaves[*li].path, "value": cr[idx as usize].3})));
                }
            });
        }
        if matches!(kind, RKind::GetInfo | RKind::CredentialManagement) {
            ctx.sample(json!({"response": kind.name(), "full_anchor": format!("{:?}", plan.build(full, &[])), "optional_members": plan.opts.len()}));
        }
    }
}

fn check_parameterless(which: u64) -> Verdict {
    let (name, r) = match which {
        0 => ("Reset", ctap2::Response::Reset),
        1 => ("Selection", ctap2::Response::Selection),
        _ => ("Vendor", ctap2::Response::Vendor),
    };
    let out = guard(|| {
        let mut buf: heapless::Vec<u8, 64> = heapless::Vec::new();
        r.serialize(&mut buf);
        buf.to_vec()
    });
    match out {
        Ok(b) if b == [0u8] => Verdict::pass(),
        Ok(b) => Verdict::fail(format!("{}|{}|not-status-byte-alone", P, name), "00", hex(&b)),
        Err(p) => Verdict::fail(format!("{}|{}|panic", P, name), "00", p),
    }
}

pub fn run(ctx: &'static Ctx) {
    ctx.rule("state = (set of present optional members incl. nested, menu-value deviations); every state is built through the public API, encoded by the real Response::serialize, parsed by the independent CBOR layer and compared as an unordered member set with the specification tree; non-trivial = differs from the minimal anchor");
    ctx.assume("make_credential::Response::unsigned_extension_outputs cannot be constructed outside the crate (no Default/Deserialize/constructor) and is always None");
    explore_responses(ctx, P, members_oracle);
    {
        let mut items: Vec<(String, Box<dyn Fn() -> String + Sync>)> = Vec::new();
        for kind in RKINDS {
            let sh = RShared::new(P, kind);
            for (label, mask) in crate::reqcheck::seed_masks(&sh.plan) {
                let wire = sh.plan.build(mask, &[]);
                items.push((format!("{}:{}", kind.name(), label), Box::new(move || match serialize_wire(kind, &wire) {
                    Ok(b) => hex(&b),
                    Err(p) => format!("PANIC {}", p),
                })));
            }
        }
        for w in 0..3u64 {
            items.push((format!("parameterless {}", w), Box::new(move || format!("{:?}", check_parameterless(w).ok))));
        }
        pair_histories(ctx, P, "encode call pairs", "every ordered pair of seed responses of all kinds encoded back to back on one thread: the second encoding must not depend on the first call", &items);
    }
    sweep(ctx, "parameter-less responses", 3, "Reset, Selection, Vendor encode as the status byte alone", |idx, l| {
        l.nontrivial += 1;
        let v = check_parameterless(idx);
        if !v.ok {
            l.fail(ctx, idx, v, || json!({"kind": "parameterless", "which": idx}));
        }
    });
}

pub fn replay(case: &Value) -> Verdict {
    match case["kind"].as_str() {
        Some("parameterless") => check_parameterless(case["which"].as_u64().unwrap()),
        Some("encode") => {
            let (kind, wire) = wire_of_case(case);
            match serialize_wire(kind, &wire) {
                Ok(b) => check_members(P, kind, &wire, &b),
                Err(p) => Verdict::fail("C02|panic", "no panic", p),
            }
        }
        _ => machinery_panic("C02: unknown replay kind"),
    }
}
