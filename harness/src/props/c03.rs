//! C03 — everything the authenticator emits is CTAP2 canonical CBOR.

use crate::core::*;
use crate::refcbor::{hex, V};
use crate::respcheck::*;
use serde_json::{json, Value};

const P: &str = "C03";

fn canonical_oracle(prop: &'static str, kind: RKind, wire: &V, bytes: &[u8]) -> Verdict {
    if bytes.is_empty() || bytes[0] != 0 {
        return Verdict::fail(format!("{}|{}|status-byte", prop, kind.name()), "00 ...", hex(bytes));
    }
    if bytes.len() == 1 {
        return Verdict::pass(); // no body
    }
    check_canonical(prop, &kind.name(), &bytes[1..])
}

/// every pair of optional members of every map of every response kind present together (with
/// the ancestors they need), from the empty end; and every pair absent, from the full end
fn pairs(ctx: &'static Ctx) {
    for kind in RKINDS {
        let sh = RShared::new(P, kind);
        let n = sh.plan.opts.len() as u64;
        if n == 0 {
            continue;
        }
        let total = n * n * 2;
        let sh2 = sh.clone();
        sweep(ctx, &format!("{} member pairs", kind.name()), total, "ordered pairs (i, j) of optional members x {added to the minimal message, removed from the full message}", move |idx, l| {
            let from_full = idx % 2 == 1;
            let i = ((idx / 2) / n) as usize;
            let j = ((idx / 2) % n) as usize;
            let plan = &sh2.plan;
            let mut mask = if from_full { plan.full_mask() } else { 0 };
            for b in [i, j] {
                if from_full {
                    mask &= !(1u64 << b);
                } else {
                    let mut g = Some(b);
                    while let Some(x) = g {
                        mask |= 1u64 << x;
                        g = plan.opts[x].parent;
                    }
                }
            }
            let mask = plan.normalize(mask);
            if i != j {
                l.nontrivial += 1;
            }
            let wire = plan.build(mask, &[]);
            let v = match serialize_wire(kind, &wire) {
                Ok(b) => canonical_oracle(P, kind, &wire, &b),
                Err(p) => Verdict::fail(format!("{}|{}|panic", P, kind.name()), "no panic", p),
            };
            l.bump(if from_full { "pair removed from full" } else { "pair added to minimal" });
            if !v.ok {
                l.fail(ctx, idx, v, || rcase(kind, &wire, json!({"pair": [plan.opts[i].path, plan.opts[j].path], "from_full": from_full})));
            }
        });
    }
}

pub fn run(ctx: &'static Ctx) {
    ctx.rule("state = response value (member subset, menu values) or member pair; every emitted body must pass the strict CTAP2 canonical validator of the independent CBOR layer; non-trivial = at least two members vary");
    ctx.assume("pairwise sufficiency for key order: emission order is declaration order for every subset, so all subsets are sorted iff all pairs are; the full lattices are explored as a cross-check");
    pairs(ctx);
    super::c02::explore_responses(ctx, P, canonical_oracle);
    super::c07::extension_maps_canonical(ctx, P);
    super::c07::extension_maps_near_capacity(ctx, P);
    super::c15::standalone_canonical(ctx, P);
    ctx.require_outcomes(&["pair added to minimal", "pair removed from full"]);
}

pub fn replay(case: &Value) -> Verdict {
    match case["kind"].as_str() {
        Some("encode") => {
            let (kind, wire) = wire_of_case(case);
            match serialize_wire(kind, &wire) {
                Ok(b) => canonical_oracle(P, kind, &wire, &b),
                Err(p) => Verdict::fail("C03|panic", "no panic", p),
            }
        }
        Some("authdata") => super::c07::replay_canonical(case),
        Some("roundtrip") => super::c15::replay_canonical(case),
        _ => machinery_panic("C03: unknown replay kind"),
    }
}
