//! C04 — decoding untrusted CTAP2 bytes never panics, aborts or hangs.

use crate::core::*;
use crate::refcbor::{encode, encode_sites, hex, unhex, V};
use crate::refmodel::{fill_bytes, fill_text, Plan, Side};
use crate::reqcheck::*;
use crate::spec::*;
use crate::subject::*;
use crate::treewalk::{self, Step};
use ctap_types::ctap2;
use serde_json::{json, Value};

const P: &str = "C04";

thread_local! {
    static DBG: std::cell::RefCell<(String, String)> = std::cell::RefCell::new((String::with_capacity(1 << 20), String::with_capacity(1 << 20)));
}

/// the robustness oracle on one input: returns, deterministically. Ok(status class) or a verdict.
#[inline]
pub fn robust(msg: &[u8], deep: bool) -> Result<&'static str, Verdict> {
    breadcrumb(TAG_CTAP2_DECODE, msg);
    let r = guard(|| {
        let a = ctap2::Request::deserialize(msg);
        let b = ctap2::Request::deserialize(msg);
        let same = a == b
            && (!deep || {
                // Debug text compared through reusable per-thread buffers (no allocation churn)
                use std::fmt::Write;
                DBG.with(|cell| {
                    let mut g = cell.borrow_mut();
                    let (x, y) = &mut *g;
                    x.clear();
                    y.clear();
                    let _ = write!(x, "{:?}", a);
                    let _ = write!(y, "{:?}", b);
                    x == y
                })
            });
        let class = match &a {
            Ok(_) => "accepted",
            Err(e) => match *e as u8 {
                0x01 => "status 0x01",
                0x12 => "status 0x12",
                0x14 => "status 0x14",
                _ => "status other",
            },
        };
        (same, class)
    });
    match r {
        Ok((true, class)) => Ok(class),
        Ok((false, _)) => Err(Verdict::fail(format!("{}|nondeterministic", P), "same result twice", "two decodes of the same bytes differ")),
        Err(p) => Err(Verdict::fail(format!("{}|panic|{}", P, p.rsplit(" @ ").next().unwrap_or("")), "a request or an error status", format!("PANIC {}", p))),
    }
}

fn bytes_case(msg: &[u8], origin: Value) -> Value {
    json!({"kind": "bytes", "bytes": hex(msg), "origin": origin})
}

/// S1: all byte strings up to a length bound. `first` restricts the first byte for the longest
/// length (None = all 256). `on` receives the status class.
pub fn short_strings(ctx: &'static Ctx, prop: &'static str, len: usize, first: Option<&'static [u8]>, other_status_is_violation: bool) {
    let firsts: Vec<u8> = match first {
        Some(f) => f.to_vec(),
        None => (0..=255u8).collect(),
    };
    let rest = len.saturating_sub(1) as u32;
    let per_first = 256u64.pow(rest);
    let total = if len == 0 { 1 } else { firsts.len() as u64 * per_first };
    let name = format!("all byte strings of length {}{}", len, if first.is_some() { " behind the parameter-bearing command bytes" } else { "" });
    sweep(ctx, &name, total, "complete", move |idx, l| {
        let mut buf = [0u8; 8];
        if len > 0 {
            buf[0] = firsts[(idx / per_first) as usize];
            let mut r = idx % per_first;
            for i in (1..len).rev() {
                buf[i] = r as u8;
                r >>= 8;
            }
        }
        let msg = &buf[..len];
        if len > 1 {
            l.nontrivial += 1;
        }
        match robust(msg, false) {
            Ok(class) => {
                l.bump(class);
                if other_status_is_violation && class == "status other" {
                    let m = msg.to_vec();
                    l.fail(ctx, idx, Verdict::fail(format!("{}|status-outside-{{01,12,14}}", prop), "0x01, 0x12 or 0x14", decode_request(&m).show()), || bytes_case(&m, json!("short string")));
                }
            }
            Err(v) => {
                let m = msg.to_vec();
                l.fail(ctx, idx, v, || bytes_case(&m, json!("short string")));
            }
        }
    });
}

/// S2: byte-level single deviations of every seed
pub fn byte_mutations(ctx: &'static Ctx, prop: &'static str, other_status_is_violation: bool) {
    // (the multi-kilobyte large-blob seeds are left out of the per-byte edits: 512 edits per byte)
    let mut seeds: Vec<_> = all_seeds().into_iter().filter(|s| s.3.len() <= 2000).collect();
    // plus the full anchors carrying unknown members in every extensible map
    for (label, bytes) in seeds_with_unknown_members() {
        seeds.push((label, Target::Cmd(bytes[0]), V::Null, bytes));
    }
    // substitution / insertion / deletion / truncation: one flat index space over all seeds
    let mut offsets: Vec<(usize, u64)> = Vec::new(); // (seed, first index)
    let mut total = 0u64;
    for (i, s) in seeds.iter().enumerate() {
        offsets.push((i, total));
        let n = s.3.len() as u64;
        total += n * 256 + (n + 1) * 256 + n + n; // subst, insert, delete, truncate
    }
    let seeds_ref = &seeds;
    let offs = &offsets;
    sweep(ctx, "one-byte edits of every seed", total, "every offset x 256 substitutions, every offset x 256 insertions, every deletion, every truncation of every seed message (both anchors + single-optional-member messages of every command)", move |idx, l| {
        let si = match offs.binary_search_by(|(_, start)| start.cmp(&idx)) {
            Ok(i) => i,
            Err(i) => i - 1,
        };
        let (label, _t, _w, bytes) = &seeds_ref[si];
        let n = bytes.len() as u64;
        let mut r = idx - offs[si].1;
        let mut m: Vec<u8>;
        let what;
        if r < n * 256 {
            m = bytes.clone();
            m[(r / 256) as usize] = (r % 256) as u8;
            what = "substitute";
        } else {
            r -= n * 256;
            if r < (n + 1) * 256 {
                m = bytes.clone();
                m.insert((r / 256) as usize, (r % 256) as u8);
                what = "insert";
            } else {
                r -= (n + 1) * 256;
                if r < n {
                    m = bytes.clone();
                    m.remove(r as usize);
                    what = "delete";
                } else {
                    r -= n;
                    m = bytes[..r as usize].to_vec();
                    what = "truncate";
                }
            }
        }
        l.nontrivial += 1;
        match robust(&m, true) {
            Ok(class) => {
                l.bump(class);
                if other_status_is_violation && class == "status other" {
                    l.fail(ctx, idx, Verdict::fail(format!("{}|status-outside-{{01,12,14}}", prop), "0x01, 0x12 or 0x14", decode_request(&m).show()), || bytes_case(&m, json!({"seed": label, "edit": what})));
                }
            }
            Err(v) => l.fail(ctx, idx, v, || bytes_case(&m, json!({"seed": label, "edit": what}))),
        }
    });
}

/// S2 splice: every item of seed A replaced by every item of seed B (same command)
fn splices(ctx: &'static Ctx) {
    for b in PARAM_CMDS {
        let t = Target::Cmd(b);
        let plan = Plan::new(&t.schema(), Side::Request);
        let full = plan.build(plan.full_mask(), &[]);
        let (abytes, asites) = encode_sites(&full);
        for (blabel, donor) in [("full", full.clone()), ("minimal", plan.build(0, &[]))] {
            let (bbytes, bsites) = encode_sites(&donor);
            let total = (asites.len() * bsites.len()) as u64;
            let (ab, asr, bb, bsr) = (&abytes, &asites, &bbytes, &bsites);
            sweep(ctx, &format!("{} item splices from {} anchor", t.name(), blabel), total, "every CBOR item of the full anchor replaced by every CBOR item of the donor message", move |idx, l| {
                let i = (idx as usize) / bsr.len();
                let j = (idx as usize) % bsr.len();
                let mut m = vec![b];
                m.extend_from_slice(&ab[..asr[i].off]);
                m.extend_from_slice(&bb[bsr[j].off..bsr[j].end]);
                m.extend_from_slice(&ab[asr[i].end..]);
                l.nontrivial += 1;
                match robust(&m, true) {
                    Ok(class) => l.bump(class),
                    Err(v) => l.fail(ctx, idx, v, || bytes_case(&m, json!({"splice": [asr[i].path, bsr[j].path]}))),
                }
            });
        }
    }
}

const HEADS: [u8; 32] = [
    0x00, 0x17, 0x18, 0x19, 0x1a, 0x1b, 0x1f, 0x20, 0x38, 0x40, 0x58, 0x5f, 0x60, 0x78, 0x7f, 0x80, 0x98, 0x9f, 0xa0, 0xb8, 0xbf, 0xc0,
    0xd8, 0xe0, 0xf4, 0xf5, 0xf6, 0xf7, 0xf8, 0xf9, 0xfb, 0xff,
];

/// thorough: two simultaneous substitutions over the CBOR head alphabet on short seeds
fn double_substitutions(ctx: &'static Ctx) {
    let seeds: Vec<_> = all_seeds().into_iter().filter(|s| s.3.len() <= 96).collect();
    for (label, _t, _w, bytes) in &seeds {
        let n = bytes.len() as u64;
        let pairs = n * (n - 1) / 2;
        let total = pairs * 1024;
        sweep(ctx, &format!("two head-byte substitutions in {}", label), total, "every pair of offsets x 32 x 32 head-byte values", move |idx, l| {
            let p = idx / 1024;
            let (x, y) = (HEADS[((idx % 1024) / 32) as usize], HEADS[(idx % 32) as usize]);
            // unrank pair p -> (i<j)
            let mut i = 0u64;
            let mut rem = p;
            while rem >= n - 1 - i {
                rem -= n - 1 - i;
                i += 1;
            }
            let j = i + 1 + rem;
            let mut m = bytes.clone();
            m[i as usize] = x;
            m[j as usize] = y;
            l.nontrivial += 1;
            match robust(&m, false) {
                Ok(class) => l.bump(class),
                Err(v) => l.fail(ctx, idx, v, || bytes_case(&m, json!({"seed": label, "double_substitution": [i, j, x, y]}))),
            }
        });
    }
}

/// chains of nested arrays / maps / tags of a given depth around a leaf
pub fn chain(kind: u8, depth: usize) -> Vec<u8> {
    let mut out = Vec::with_capacity(depth * 3 + 1);
    for _ in 0..depth {
        match kind {
            0 => out.push(0x81),
            1 => out.extend_from_slice(&[0xa1, 0x00]),
            _ => out.push(0xc0),
        }
    }
    out.push(0x00);
    out
}

/// heads that announce an enormous element / byte count while the message ends early
fn huge_counts(ctx: &'static Ctx) {
    let seeds: Vec<_> = all_seeds().into_iter().filter(|s| s.0.ends_with(":full") || s.0.ends_with(":minimal")).collect();
    let mut cases: Vec<(usize, usize, u8, bool)> = Vec::new(); // (seed, site, width 4|8, keep the rest)
    let mut enc: Vec<(Vec<u8>, Vec<crate::refcbor::Site>)> = Vec::new();
    for (si, s) in seeds.iter().enumerate() {
        let (b, sites) = encode_sites(&s.2);
        for (k, site) in sites.iter().enumerate() {
            if matches!(site.major, 2 | 3 | 4 | 5) {
                for w in [4u8, 8] {
                    for keep in [false, true] {
                        cases.push((si, k, w, keep));
                    }
                }
            }
        }
        enc.push((b, sites));
    }
    let stalled = std::sync::atomic::AtomicBool::new(false);
    let (cr, er, sr, st) = (&cases, &enc, &seeds, &stalled);
    sweep(ctx, "heads announcing 2^32-1 / 2^64-1 elements", cases.len() as u64, "every string / array / map head of both anchors of every command replaced by a 5- or 9-byte head with all-ones count, the rest of the message kept or cut; each call must return promptly", move |idx, l| {
        if st.load(std::sync::atomic::Ordering::Relaxed) {
            l.bump("skipped after a stall was recorded");
            return;
        }
        let (si, k, w, keep) = cr[idx as usize];
        let (body, sites) = &er[si];
        let site = &sites[k];
        let cmd = match sr[si].1 {
            Target::Cmd(b) => b,
            _ => unreachable!(),
        };
        let mut m = vec![cmd];
        m.extend_from_slice(&body[..site.off]);
        m.push(site.major << 5 | if w == 4 { 26 } else { 27 });
        m.extend(std::iter::repeat(0xff).take(w as usize));
        if keep {
            m.extend_from_slice(&body[site.off + site.head_len..]);
        }
        l.nontrivial += 1;
        // CPU time of this thread, not wall time: a loaded machine must not look like a stall
        let cpu = || -> std::time::Duration {
            let mut ts = libc::timespec { tv_sec: 0, tv_nsec: 0 };
            unsafe { libc::clock_gettime(libc::CLOCK_THREAD_CPUTIME_ID, &mut ts) };
            std::time::Duration::new(ts.tv_sec as u64, ts.tv_nsec as u32)
        };
        let t0 = cpu();
        let r = robust(&m, false);
        let dt = cpu().saturating_sub(t0);
        if dt.as_millis() > 1500 {
            st.store(true, std::sync::atomic::Ordering::Relaxed);
            l.fail(ctx, idx, Verdict::fail(format!("{}|stall|announced-count", P), "returns promptly (work bounded by the input length)", format!("{} ms of CPU time for a {}-byte message", dt.as_millis(), m.len())), || bytes_case(&m, json!({"huge_count_at": site.path, "width": w})));
            return;
        }
        match r {
            Ok(class) => l.bump(class),
            Err(v) => l.fail(ctx, idx, v, || bytes_case(&m, json!({"huge_count_at": site.path, "width": w}))),
        }
    });
}

/// S3: structure-level deviations
fn structural(ctx: &'static Ctx) {
    // (a) every leaf of every command's full anchor replaced by boundary-crossing values
    for b in PARAM_CMDS {
        let t = Target::Cmd(b);
        let plan = Plan::new(&t.schema(), Side::Request);
        let full = plan.full_mask();
        let mut cases: Vec<(usize, V, String)> = Vec::new();
        for (li, leaf) in plan.leaves.iter().enumerate() {
            let lens = [0usize, 1, 23, 24, 31, 32, 33, 63, 64, 65, 79, 80, 81, 127, 128, 129, 255, 256, 257, 300, 512, 1023, 1024, 1025, 4000, 7000];
            for len in lens {
                cases.push((li, V::B(fill_bytes(len, li)), format!("bytes({})", len)));
                cases.push((li, V::t(&fill_text(len, li)), format!("text({})", len)));
                cases.push((li, V::t(&crate::refmodel::fill_wide(len, 3)), format!("wide-text({})", len)));
            }
            // multi-byte characters at every alignment relative to every capacity boundary
            for base in [60usize, 124, 252] {
                for width in [2usize, 3, 4] {
                    for pad in 0..8usize {
                        for tail in [0usize, 40] {
                            let mut s = "p".repeat(base + pad);
                            s.push_str(&crate::refmodel::fill_wide(3 * width, width));
                            s.push_str(&"t".repeat(tail));
                            cases.push((li, V::t(&s), format!("aligned-wide-text(base {}, pad {}, width {}, tail {})", base, pad, width, tail)));
                        }
                    }
                }
            }
            for n in [0usize, 1, 2, 9, 10, 11, 15, 16, 17, 32, 64, 200] {
                cases.push((li, V::A((0..n).map(|i| crate::refmodel::descriptor(i, 16)).collect()), format!("descriptors({})", n)));
                cases.push((li, V::A((0..n).map(|i| crate::refmodel::param(-7 - (i as i64 % 3), PUBLIC_KEY)).collect()), format!("params({})", n)));
                cases.push((li, V::A((0..n).map(|_| V::t("packed")).collect()), format!("formats({})", n)));
                let reg = ["packed", "none", "fido-u2f", "tpm", "android-key", "android-safetynet", "apple"];
                cases.push((li, V::A((0..n).map(|i| V::t(reg[i % reg.len()])).collect()), format!("registered-formats({})", n)));
                cases.push((li, V::A((0..n).map(|i| V::t(reg[(n - 1 - i) % reg.len()])).collect()), format!("registered-formats-reversed({})", n)));
                cases.push((li, V::A((0..n).map(|i| V::U(i as u64)).collect()), format!("ints({})", n)));
                cases.push((li, V::M((0..n).map(|i| (V::t(&format!("k{:03}", i)), V::U(i as u64))).collect()), format!("textmap({})", n)));
                cases.push((li, V::M((0..n).map(|i| (V::U(i as u64), V::U(i as u64))).collect()), format!("intmap({})", n)));
            }
            // sequences of special-role characters (joiners, variation selectors, combining marks,
            // BOM) sliding across the 64 / 128 / 256 byte boundaries
            for base in [48usize, 112, 240] {
                for pad in 0..20usize {
                    for seq in ["\u{2764}\u{fe0f}\u{200d}\u{1f525}", "\u{1f3f3}\u{fe0f}\u{200d}\u{1f308}", "e\u{301}\u{301}\u{200d}", "\u{feff}\u{200f}\u{200d}\u{e9}", "\u{1f468}\u{200d}\u{1f469}\u{200d}\u{1f467}"] {
                        let mut s = "p".repeat(base + pad);
                        s.push_str(seq);
                        s.push_str("tail");
                        cases.push((li, V::t(&s), format!("special-sequence(base {}, pad {})", base, pad)));
                    }
                }
            }
            // very long lists of short entries (counters, capacity arithmetic at 8/16-bit boundaries)
            for n in [254usize, 255, 256, 257, 300, 1000, 3000] {
                cases.push((li, V::A((0..n).map(|_| V::t("x")).collect()), format!("short-texts({})", n)));
                cases.push((li, V::A((0..n).map(|i| V::U(i as u64 % 24)).collect()), format!("small-ints({})", n)));
                cases.push((li, V::M((0..n).map(|i| (V::U(i as u64), V::U(0))).collect()), format!("small-intmap({})", n)));
                if n <= 300 {
                    cases.push((li, V::A((0..n).map(|i| crate::refmodel::param(-1000 - i as i64, "k")).collect()), format!("short-params({})", n)));
                    cases.push((li, V::A((0..n).map(|i| V::M(vec![(V::t("id"), V::B(vec![i as u8])), (V::t("type"), V::t("k"))])).collect()), format!("short-descriptors({})", n)));
                }
            }
            for x in [0u64, 23, 24, 255, 256, 65535, 65536, u32::MAX as u64, 1 << 32, i64::MAX as u64, 1 << 63, u64::MAX] {
                cases.push((li, V::U(x), format!("uint({})", x)));
                cases.push((li, V::N(x), format!("nint({})", x)));
            }
            for v in [V::Bool(true), V::Null, V::Undef, V::Simple(0), V::Simple(255), V::F16(0), V::F32(0), V::F64(0), V::Tag(0, Box::new(V::U(0)))] {
                cases.push((li, v.clone(), format!("{:?}", v)));
            }
            let _ = leaf;
        }
        let total = cases.len() as u64;
        let (plan_r, cases_r, t_r) = (&plan, &cases, &t);
        sweep(ctx, &format!("{} leaf replacement by boundary-crossing values", t.name()), total, "every leaf of the full anchor x {bytes/text of 26 lengths across every capacity, lists and maps of 12 sizes, integers at every head width and sign, simple values, floats, tags}", move |idx, l| {
            let (li, v, what) = &cases_r[idx as usize];
            let wire = plan_r.build_with(full, &[], &[(*li, v.clone())]);
            let m = t_r.bytes(&wire);
            if m.len() > MAX_MSG {
                l.bump("skipped: over message limit");
                return;
            }
            l.nontrivial += 1;
            match robust(&m, true) {
                Ok(class) => l.bump(class),
                Err(v) => l.fail(ctx, idx, v, || bytes_case(&m, json!({"leaf": plan_r.leaves[*li].path, "value": what}))),
            }
        });
    }
    // (a2) two leaves replaced at once by small values: selector-like integers against short
    // byte strings / texts / lists (length arithmetic that depends on another member's value)
    for b in PARAM_CMDS {
        let t = Target::Cmd(b);
        let plan = Plan::new(&t.schema(), Side::Request);
        let full = plan.full_mask();
        let mut small: Vec<(V, String)> = Vec::new();
        for x in [0u64, 1, 2, 3, 4, 16, 17, 23, 24, 31, 32, 255] {
            small.push((V::U(x), format!("uint({})", x)));
        }
        for len in [0usize, 1, 2, 15, 16, 17, 31, 32, 33, 47, 48, 49, 63, 64, 65] {
            small.push((V::B(fill_bytes(len, 1)), format!("bytes({})", len)));
        }
        for len in [0usize, 1, 64, 65] {
            small.push((V::t(&fill_text(len, 1)), format!("text({})", len)));
        }
        small.push((V::A(vec![]), "array(0)".into()));
        small.push((V::M(vec![]), "map(0)".into()));
        small.push((V::Bool(true), "true".into()));
        let n = plan.leaves.len();
        let k = small.len() as u64;
        // from the full anchor and from every message lacking exactly one optional member
        let mut masks = vec![full];
        masks.extend((0..plan.opts.len()).map(|o| full & !(1u64 << o)).filter(|m| plan.valid(*m)));
        let mut pairs: Vec<(u64, usize, usize)> = Vec::new();
        for m in &masks {
            for a in 0..n {
                for b in a + 1..n {
                    if plan.leaf_enabled(a, *m) && plan.leaf_enabled(b, *m) {
                        pairs.push((*m, a, b));
                    }
                }
            }
        }
        let total = pairs.len() as u64 * k * k;
        let (plan_r, small_r, t_r, pairs_r) = (&plan, &small, &t, &pairs);
        sweep(ctx, &format!("{} two-leaf replacement by small values", t.name()), total, "every unordered pair of leaves of the full anchor and of every message lacking exactly one optional member x 34 x 34 small values (selector-like integers, byte strings and texts around 16 / 32 / 48 / 64, empty containers)", move |idx, l| {
            let vb = (idx % k) as usize;
            let va = (idx / k % k) as usize;
            let (mask, la, lb) = pairs_r[(idx / (k * k)) as usize];
            let wire = plan_r.build_with(mask, &[], &[(la, small_r[va].0.clone()), (lb, small_r[vb].0.clone())]);
            let m = t_r.bytes(&wire);
            l.nontrivial += 1;
            match robust(&m, true) {
                Ok(class) => l.bump(class),
                Err(v) => l.fail(ctx, idx, v, || bytes_case(&m, json!({"leaves": [plan_r.leaves[la].path, plan_r.leaves[lb].path], "values": [small_r[va].1, small_r[vb].1]}))),
            }
        });
    }
    // (b) nesting chains in unknown-member and known-member positions, up to the message limit
    let mut depths: Vec<usize> = (1..=64).collect();
    depths.extend([100, 128, 200, 256, 500, 512, 1000, 1024, 2000, 2048, 3000, 3700, 4096, 6000, 7000, 7500, 7590]);
    let depths_r = &depths;
    let total = (depths.len() * 3 * 4) as u64;
    sweep(ctx, "nesting chains", total, "arrays / maps / tags nested to depth 1..=64, 100, ..., up to what fits into 7609 bytes, as value of an unknown option, of a known member, of a top-level parameter, and of an unknown extension", move |idx, l| {
        let d = depths_r[(idx as usize) / 12];
        let kind = ((idx as usize) / 4 % 3) as u8;
        let pos = idx % 4;
        let c = chain(kind, d);
        let mut m: Vec<u8> = Vec::new();
        match pos {
            0 => {
                // GetAssertion {1: "a", 2: h'', 5: {"zz": chain}}
                m.extend_from_slice(&[0x02, 0xa3, 0x01, 0x61, 0x61, 0x02, 0x40, 0x05, 0xa1, 0x62, 0x7a, 0x7a]);
                m.extend_from_slice(&c);
            }
            1 => {
                // GetAssertion {1: "a", 2: h'', 5: chain}   (known member, wrong shape)
                m.extend_from_slice(&[0x02, 0xa3, 0x01, 0x61, 0x61, 0x02, 0x40, 0x05]);
                m.extend_from_slice(&c);
            }
            2 => {
                // MakeCredential {1: chain}
                m.extend_from_slice(&[0x01, 0xa1, 0x01]);
                m.extend_from_slice(&c);
            }
            _ => {
                // GetAssertion {1: "a", 2: h'', 4: {"zz": chain}}
                m.extend_from_slice(&[0x02, 0xa3, 0x01, 0x61, 0x61, 0x02, 0x40, 0x04, 0xa1, 0x62, 0x7a, 0x7a]);
                m.extend_from_slice(&c);
            }
        }
        if m.len() > MAX_MSG {
            l.bump("skipped: over message limit");
            return;
        }
        l.nontrivial += 1;
        match robust(&m, false) {
            Ok(class) => {
                l.bump(class);
                if d >= 3000 {
                    l.bump("nesting depth >= 3000 survived");
                }
            }
            Err(v) => l.fail(ctx, idx, v, || bytes_case(&m, json!({"nesting": {"kind": kind, "depth": d, "position": pos}}))),
        }
    });
}

pub fn run(ctx: &'static Ctx) {
    ctx.rule("every enumerated byte string is a distinct state handed to the real Request::deserialize twice; non-trivial = longer than the command byte");
    ctx.assume("build profile: opt-level 2 with debug assertions and overflow checks, so unsafe-precondition violations and arithmetic wrap trap; worker stacks 8 MiB");
    ctx.assume("aborts / stack overflows / stalls are detected by the signal handler and the orchestrator's wall cap, attributed through per-worker input breadcrumbs");
    for len in 0..=3 {
        short_strings(ctx, P, len, None, false);
    }
    if ctx.thorough() {
        short_strings(ctx, P, 4, None, false);
        short_strings(ctx, P, 5, Some(&PARAM_CMDS), false);
    } else {
        short_strings(ctx, P, 4, Some(&PARAM_CMDS), false);
    }
    byte_mutations(ctx, P, false);
    splices(ctx);
    structural(ctx);
    huge_counts(ctx);
    if ctx.thorough() {
        double_substitutions(ctx);
    }
    // no state across calls: every ordered pair of seed messages (plus malformed ones)
    {
        let mut items: Vec<(String, Box<dyn Fn() -> String + Sync>)> = Vec::new();
        let mut msgs: Vec<(String, Vec<u8>)> = all_seeds().into_iter().map(|s| (s.0, s.3)).collect();
        msgs.push(("empty".into(), vec![]));
        msgs.push(("truncated".into(), vec![0x01, 0xa4, 0x01]));
        msgs.push(("unknown command".into(), vec![0x55, 0xa0]));
        msgs.push(("long names".into(), {
            let t = Target::Cmd(0x01);
            let plan = Plan::new(&t.schema(), Side::Request);
            let w = plan.build_with(plan.full_mask(), &[], &[(plan.leaf_index("/user/name"), V::t(&crate::refmodel::fill_wide(130, 4))), (plan.leaf_index("/rp/name"), V::t(&fill_text(200, 3)))]);
            t.bytes(&w)
        }));
        for (label, m) in msgs {
            items.push((label, Box::new(move || decode_request(&m).show())));
        }
        pair_histories(ctx, P, "decode call pairs", "every ordered pair of 75 messages decoded back to back on one thread: the second result must not depend on the first call", &items);
    }
    ctx.require_outcomes(&["accepted", "status 0x01", "status 0x12", "status 0x14", "nesting depth >= 3000 survived"]);
    ctx.sample(json!({"bytes": "0200", "family": "all byte strings of length 2"}));
    ctx.sample(json!({"family": "nesting chain", "message": "02a3016161024005a1627a7a 81*7590 00", "oracle": "returns (unknown option skipped or error), no stack overflow"}));
    ctx.sample(json!({"family": "leaf replacement", "example": "MakeCredential user.icon := text(129)", "oracle": "returns"}));
}

pub fn replay(case: &Value) -> Verdict {
    let m = unhex(case["bytes"].as_str().unwrap());
    match robust(&m, true) {
        Ok(class) => Verdict {
            ok: true,
            signature: String::new(),
            expected: "returns".into(),
            observed: class.into(),
        },
        Err(v) => v,
    }
}
