//! C05 — rejected CTAP2 requests report exactly the status code their fault calls for.

use crate::core::*;
use crate::engine_sr::{explore, Space};
use crate::refcbor::{encode_sites, hex, make_indefinite, unhex, widen_head, V};
use crate::refmodel::{descriptor, fill_bytes, fill_text, Plan, Side};
use crate::reqcheck::*;
use crate::spaces::*;
use crate::spec::*;
use crate::subject::*;
use crate::treewalk::{self, all_optional_top, Step, TSite};
use serde_json::{json, Value};
use std::sync::Arc;

const P: &str = "C05";

#[derive(Clone, Debug)]
pub struct Fault {
    pub class: &'static str,
    pub desc: String,
    pub bytes: Vec<u8>,
    pub expect: u8,
}

fn other_type_values() -> Vec<V> {
    vec![V::U(0), V::N(0), V::B(vec![]), V::T(vec![]), V::A(vec![]), V::M(vec![]), V::Bool(true)]
}

fn same_family(ty: &Ty, orig: &V, repl: &V) -> bool {
    if orig.kind() == repl.kind() {
        return true;
    }
    // sign changes of signed-integer members are not faults
    let int = |v: &V| matches!(v, V::U(_) | V::N(_));
    matches!(ty, Ty::Int32) && int(orig) && int(repl)
}

fn over_limit(site: &TSite, orig: &V) -> Vec<(String, V)> {
    let mut out = Vec::new();
    match &site.ty {
        Ty::Bytes(Some(c)) => out.push((format!("bytes {}+1", c), V::B(fill_bytes(c + 1, 5)))),
        Ty::Text(Some(c)) => out.push((format!("text {}+1", c), V::t(&fill_text(c + 1, 5)))),
        Ty::BytesExact(n) => {
            out.push((format!("bytes {}+1", n), V::B(fill_bytes(n + 1, 5))));
            out.push((format!("bytes {}-1", n), V::B(fill_bytes(n - 1, 5))));
        }
        Ty::List(_, Some(c)) => {
            let elem = orig.as_arr().and_then(|a| a.first().cloned()).unwrap_or_else(|| descriptor(0, 16));
            out.push((format!("list {}+1", c), V::A(vec![elem; c + 1])));
        }
        Ty::Uint(max) if *max < u64::MAX => out.push((format!("uint {}+1", max), V::U(max + 1))),
        Ty::Int32 => {
            // algorithm identifiers: one past either end of the signed 32-bit range
            out.push(("int32 max+1".into(), V::U(1 << 31)));
            out.push(("int32 min-1".into(), V::N(1 << 31)));
        }
        Ty::Enum(vals) => {
            let max = *vals.iter().max().unwrap();
            for x in 0..=max + 1 {
                if !vals.contains(&x) {
                    out.push((format!("enum value {} not in table", x), V::U(x)));
                }
            }
            out.push(("enum value 255".into(), V::U(255)));
            out.push(("enum value 256".into(), V::U(256)));
        }
        _ => {}
    }
    out
}

/// every single fault of every class applicable to the seed
pub fn faults_of(target: &Target, wire: &V) -> Vec<Fault> {
    let mut out = Vec::new();
    let schema = target.schema();
    let cmd = match target {
        Target::Cmd(b) => *b,
        _ => unreachable!(),
    };
    let msg = |w: &V| message(cmd, w);
    // 1. required members removed
    for (path, name) in treewalk::required_entries(&schema, wire) {
        // COSE kty/alg/crv are typed Int32 by the walk; alg is optional and filtered there
        out.push(Fault {
            class: "missing-required",
            desc: format!("remove {}", name),
            bytes: msg(&treewalk::removed(wire, &path)),
            expect: ST_MISSING_PARAMETER,
        });
    }
    let sites = treewalk::sites(&schema, wire);
    for s in &sites {
        let orig = treewalk::get(wire, &s.path).unwrap();
        // 3. duplicated keys
        if matches!(s.path.last(), Some(Step::Key(_))) {
            out.push(Fault {
                class: "duplicate-key",
                desc: format!("duplicate {}", s.name),
                bytes: msg(&treewalk::duplicated(wire, &s.path)),
                expect: ST_INVALID_CBOR,
            });
        }
        // 6. value replaced by every other data type
        for repl in other_type_values() {
            if same_family(&s.ty, orig, &repl) {
                continue;
            }
            out.push(Fault {
                class: "wrong-type",
                desc: format!("{} := {} instead of {}", s.name, repl.kind(), orig.kind()),
                bytes: msg(&treewalk::replaced(wire, &s.path, repl.clone())),
                expect: ST_INVALID_CBOR,
            });
        }
        // 7. one past the limit / range
        for (what, v) in over_limit(s, orig) {
            out.push(Fault {
                class: "over-limit",
                desc: format!("{} := {}", s.name, what),
                bytes: msg(&treewalk::replaced(wire, &s.path, v)),
                expect: ST_INVALID_CBOR,
            });
        }
    }
    // byte-level faults on the encoded parameter map
    let (body, bsites) = encode_sites(wire);
    let with_cmd = |b: Vec<u8>| {
        let mut m = vec![cmd];
        m.extend(b);
        m
    };
    for s in &bsites {
        // 4. non-minimal heads, one to three widths too long
        for steps in 1..=3u8 {
            if let Some(b) = widen_head(&body, s, steps) {
                out.push(Fault {
                    class: "non-minimal",
                    desc: format!("head at {} widened by {}", s.path, steps),
                    bytes: with_cmd(b),
                    expect: ST_INVALID_CBOR,
                });
            }
        }
        // 5. indefinite lengths
        if let Some(b) = make_indefinite(&body, s) {
            out.push(Fault {
                class: "indefinite",
                desc: format!("item at {} made indefinite-length", s.path),
                bytes: with_cmd(b),
                expect: ST_INVALID_CBOR,
            });
        }
    }
    // 2. truncation at every offset (including the empty message)
    let full = msg(wire);
    for n in 0..full.len() {
        out.push(Fault {
            class: "truncated",
            desc: format!("cut to {} of {} bytes", n, full.len()),
            bytes: full[..n].to_vec(),
            expect: ST_INVALID_CBOR,
        });
    }
    out
}

struct Seed {
    label: String,
    target: Target,
    wire: V,
    faults: Vec<Fault>,
}

struct FaultSpace {
    seeds: Arc<Vec<Seed>>,
}

impl Space for FaultSpace {
    type S = (usize, Option<usize>);
    type A = usize;
    fn name(&self) -> String {
        "single faults on every seed".into()
    }
    fn init(&self) -> Vec<Self::S> {
        (0..self.seeds.len()).map(|i| (i, None)).collect()
    }
    fn actions(&self, s: &Self::S, out: &mut Vec<usize>) {
        if s.1.is_none() {
            out.extend(0..self.seeds[s.0].faults.len());
        }
    }
    fn next(&self, s: &Self::S, a: &usize) -> Option<Self::S> {
        Some((s.0, Some(*a)))
    }
    fn check(&self, s: &Self::S) -> Verdict {
        let seed = &self.seeds[s.0];
        match s.1 {
            None => compare(P, &seed.target, &seed.wire),
            Some(f) => {
                let fault = &seed.faults[f];
                let got = seed.target.observe_bytes(&fault.bytes);
                if got == Dec::Err(fault.expect) {
                    return Verdict::pass();
                }
                let what = match &got {
                    Dec::Ok(_) => "accepted".to_string(),
                    Dec::Err(e) => format!("status-0x{:02x}", e),
                    Dec::Panic(_) => "panic".to_string(),
                };
                Verdict::fail(
                    format!("{}|{}|{}|{}-instead-of-0x{:02x}", P, seed.target.name(), fault.class, what, fault.expect),
                    format!("Err(0x{:02x}) for fault: {}", fault.expect, fault.desc),
                    got.show(),
                )
            }
        }
    }
    fn case(&self, s: &Self::S) -> Value {
        let seed = &self.seeds[s.0];
        match s.1 {
            None => case_json(&seed.target, &seed.wire, json!({"seed": seed.label})),
            Some(f) => {
                let fault = &seed.faults[f];
                json!({"kind": "fault", "seed": seed.label, "class": fault.class, "fault": fault.desc, "bytes": hex(&fault.bytes), "expect": fault.expect})
            }
        }
    }
    fn nontrivial(&self, s: &Self::S) -> bool {
        s.1.is_some()
    }
}

fn check_status_bytes(bytes: &[u8], expect: u8) -> Verdict {
    let got = decode_request(bytes);
    if got == Dec::Err(expect) {
        Verdict::pass()
    } else {
        Verdict::fail(format!("{}|replay", P), format!("Err(0x{:02x})", expect), got.show())
    }
}

pub fn run(ctx: &'static Ctx) {
    ctx.rule("state = (seed message, at most one fault); seeds are both anchors and every single-optional-member message of every parameter-bearing command (thorough: every member subset within two flips of either anchor); each faulted message is decoded by the real code and its status compared with the fault class's status; non-trivial = a fault is applied");
    ctx.assume("single faults only; sign changes of signed members and null for optional members are not asserted; lossy members (names, user icon, rp icon, algorithm / format lists) have no over-limit fault");
    // fault enumeration as a depth-1 explicit-state search
    let mut seeds = Vec::new();
    let mut class_counts: std::collections::BTreeMap<&'static str, u64> = Default::default();
    for (label, target, wire, _bytes) in all_seeds_with(ctx.thorough()) {
        let faults = faults_of(&target, &wire);
        for f in &faults {
            *class_counts.entry(f.class).or_insert(0) += 1;
        }
        seeds.push(Seed { label, target, wire, faults });
    }
    let total: u64 = seeds.len() as u64 + seeds.iter().map(|s| s.faults.len() as u64).sum::<u64>();
    for (k, v) in &class_counts {
        ctx.hist(&format!("faults of class {}", k), *v);
    }
    let sample = seeds.iter().find(|s| s.label.contains("MakeCredential") && s.label.ends_with("full")).map(|s| {
        json!({"seed": s.label, "faults": s.faults.len(), "examples": s.faults.iter().step_by(s.faults.len() / 6 + 1).map(|f| format!("{}: {} -> 0x{:02x}", f.class, f.desc, f.expect)).collect::<Vec<_>>()})
    });
    if let Some(s) = sample {
        ctx.sample(s);
    }
    explore(ctx, FaultSpace { seeds: Arc::new(seeds) }, Some(total), "complete: every fault of every class at every applicable site of every seed");

    // every subset of ALL parameters, required ones included
    for b in PARAM_CMDS {
        let target = Target::Cmd(b);
        let plan = Arc::new(Plan::new(&all_optional_top(&target.schema()), Side::Request));
        // only the top-level bits vary; nested optional members stay present
        let tops: u64 = plan.opts.iter().enumerate().filter(|(_, o)| o.parent.is_none()).map(|(i, _)| 1u64 << i).sum();
        let full = plan.full_mask();
        let (p1, p2, t1, t2) = (plan.clone(), plan.clone(), target.clone(), target.clone());
        explore(
            ctx,
            Lattice {
                plan: plan.clone(),
                free: tops,
                base: full,
                radius: None,
                name: format!("{} every subset of all parameters", target.name()),
                check: Box::new(move |mask| {
                    let wire = p1.build(mask, &[]);
                    let v = compare(P, &t1, &wire);
                    v
                }),
                case: Box::new(move |mask| case_json(&t2, &p2.build(mask, &[]), json!({"mask": p2.describe_mask(mask)}))),
            },
            Some(1 << tops.count_ones()),
            "accepted iff every required parameter is present, else exactly MissingParameter",
        );
    }

    // all 256 command bytes with small payloads
    let anchor = {
        let t = Target::Cmd(0x01);
        let plan = Plan::new(&t.schema(), Side::Request);
        crate::refcbor::encode(&plan.build(0, &[]))
    };
    let payloads: Vec<Vec<u8>> = vec![vec![], vec![0xa0], anchor];
    let pl = &payloads;
    sweep(ctx, "all command bytes", 256 * 3, "256 first bytes x {no parameters, empty map, a valid MakeCredential map}", move |idx, l| {
        let byte = (idx / 3) as u8;
        let mut m = vec![byte];
        m.extend_from_slice(&pl[(idx % 3) as usize]);
        let got = decode_request(&m);
        l.nontrivial += 1;
        let want: Option<Dec> = match command_of(byte) {
            None => Some(Dec::Err(ST_INVALID_COMMAND)),
            Some(c) if request_schema(c).is_some() && idx % 3 == 0 => Some(Dec::Err(ST_INVALID_CBOR)),
            _ => None,
        };
        l.bump(got.class());
        let bad_status = matches!(got, Dec::Err(e) if e != 0x01 && e != 0x12 && e != 0x14) || matches!(got, Dec::Panic(_));
        if bad_status || want.as_ref().map_or(false, |w| *w != got) {
            let v = Verdict::fail(
                format!("{}|command-byte|0x{:02x}|{}", P, byte, got.class()),
                want.map_or("a status in {0x01,0x12,0x14} or a request".into(), |w| w.show()),
                got.show(),
            );
            l.fail(ctx, idx, v, || json!({"kind": "status", "bytes": hex(&m), "expect": match command_of(byte) { None => 1, _ => 0x12 }}));
        }
    });
    // the status of every rejected input of the robustness runs lies in the three-element set
    for len in 0..=3 {
        super::c04::short_strings(ctx, P, len, None, true);
    }
    super::c04::byte_mutations(ctx, P, true);
    ctx.require_outcomes(&["accepted", "status 0x01", "status 0x12", "status 0x14"]);
    ctx.inner.lock().unwrap().histogram.entry("status other".into()).or_insert(0);
}

pub fn replay(case: &Value) -> Verdict {
    match case["kind"].as_str() {
        Some("fault") | Some("status") => check_status_bytes(&unhex(case["bytes"].as_str().unwrap()), case["expect"].as_u64().unwrap() as u8),
        Some("decode-compare") => replay_decode_compare(P, case),
        Some("bytes") => super::c04::replay(case),
        _ => machinery_panic("C05: unknown replay kind"),
    }
}
