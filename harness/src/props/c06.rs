//! C06 — unknown options, extensions and entity members are skipped, not fatal.

use crate::core::*;
use crate::refcbor::{self, encode, hex, unhex, V};
use crate::refmodel::{Plan, Side};
use crate::reqcheck::*;
use crate::spec::*;
use crate::subject::*;
use crate::treewalk::{self, Path};
use serde_json::{json, Value};

const P: &str = "C06";

/// all definite-length values with exactly `n` nodes (leaves, arrays/maps of arity <= 2, tags)
fn values_exact(n: usize, memo: &mut Vec<Vec<V>>) {
    let leaves = refcbor::leaf_alphabet();
    let mut out: Vec<V> = Vec::new();
    if n == 1 {
        out.extend(leaves);
        out.push(V::A(vec![]));
        out.push(V::M(vec![]));
    } else {
        // tags and unary containers around an (n-1)-node value
        for v in memo[n - 1].clone() {
            for t in [0u64, 24, 1 << 32] {
                out.push(V::Tag(t, Box::new(v.clone())));
            }
            out.push(V::A(vec![v.clone()]));
        }
        // {k: v}: 1 + 1 + (n-2)
        if n >= 3 {
            for v in memo[n - 2].clone() {
                out.push(V::M(vec![(V::t("a"), v.clone())]));
                out.push(V::M(vec![(V::U(0), v.clone())]));
            }
        }
        // [v1, v2]
        for a in 1..n - 1 {
            let b = n - 1 - a;
            if b >= 1 {
                for x in memo[a].clone() {
                    for y in memo[b].clone() {
                        out.push(V::A(vec![x.clone(), y.clone()]));
                    }
                }
            }
        }
        // {a: v1, b: v2}: 1 + 2 + n1 + n2
        if n >= 5 {
            for a in 1..n - 3 {
                let b = n - 3 - a;
                if b >= 1 {
                    for x in memo[a].clone() {
                        for y in memo[b].clone() {
                            out.push(V::M(vec![(V::t("a"), x.clone()), (V::t("b"), y.clone())]));
                        }
                    }
                }
            }
        }
    }
    memo.push(out);
}

pub fn values_up_to(n: usize) -> Vec<V> {
    let mut memo: Vec<Vec<V>> = vec![vec![]];
    for i in 1..=n {
        values_exact(i, &mut memo);
    }
    memo.into_iter().flatten().collect()
}

fn real_world() -> Vec<(V, V)> {
    vec![
        (V::t("transports"), V::A(vec![V::t("usb"), V::t("nfc")])),
        (V::t("credProps"), V::Bool(true)),
        (V::t("prf"), V::M(vec![(V::t("eval"), V::M(vec![(V::t("first"), V::B(vec![7; 32]))]))])),
        (V::t("credBlob"), V::B(vec![1; 32])),
        (V::t("minPinLength"), V::Bool(true)),
        (V::t("hmac-secret-mc"), V::M(vec![(V::U(1), V::M(vec![(V::U(1), V::U(2))])), (V::U(2), V::B(vec![2; 48])), (V::U(3), V::B(vec![3; 16]))])),
    ]
}

#[derive(Clone)]
struct Host {
    label: String,
    target: Target,
    wire: V,
    path: Path,
    len: usize,
    known: Vec<String>,
    baseline: Dec,
}

fn hosts() -> Vec<Host> {
    let mut out = Vec::new();
    for (label, target, wire, _b) in all_seeds() {
        // the seed whose parameter list has entries of a foreign credential type contributes those
        // entries as additional hosts (an entry that is going to be filtered out is still a map
        // whose unknown members must be skipped)
        let foreign = label.ends_with(":full-with-foreign-type-entries");
        if !(label.ends_with(":full") || label.ends_with(":minimal") || foreign) {
            continue;
        }
        if target == Target::Cmd(0x41) {
            continue; // same decoder as 0x0a (C11); keeps the host list to distinct map types
        }
        for s in treewalk::sites(&target.schema(), &wire) {
            if foreign && !s.name.contains("pubKeyCredParams") {
                continue;
            }
            if let Ty::Struct(Keys::Text, fields) = &s.ty {
                let mut known: Vec<String> = Vec::new();
                for f in fields {
                    known.push(f.name.to_string());
                    known.extend(f.aliases.iter().map(|a| a.to_string()));
                }
                let len = treewalk::get(&wire, &s.path).unwrap().as_map().unwrap().len();
                let baseline = target.observe_bytes(&target.bytes(&wire));
                out.push(Host {
                    label: format!("{}{}", label, s.name),
                    target: target.clone(),
                    wire: wire.clone(),
                    path: s.path.clone(),
                    len,
                    known,
                    baseline,
                });
            }
        }
    }
    out
}

fn check_insert(h: &Host, pos: usize, key: &V, val: &V) -> Verdict {
    let with = treewalk::inserted(&h.wire, &h.path, pos, key.clone(), val.clone());
    let bytes = h.target.bytes(&with);
    if bytes.len() > MAX_MSG {
        return Verdict::pass();
    }
    let got = h.target.observe_bytes(&bytes);
    if got == h.baseline && matches!(got, Dec::Ok(_)) {
        return Verdict::pass();
    }
    let what = match &got {
        Dec::Ok(_) => "value-changed",
        Dec::Err(_) => "rejected",
        Dec::Panic(_) => "panic",
    };
    let host_type = h.label.rsplit('/').next().unwrap_or("");
    Verdict::fail(format!("{}|{}|{}|unknown-{}", P, h.target.name(), what, val.kind()), format!("same as without the unknown member: {}", h.baseline.show()), format!("{} (host {}, key {:?}, value {:?})", got.show(), host_type, key, val))
}

fn icase(h: &Host, pos: usize, key: &V, val: &V) -> Value {
    let with = treewalk::inserted(&h.wire, &h.path, pos, key.clone(), val.clone());
    json!({"kind": "unknown-member", "target": h.target.to_json(), "host": h.label, "position": pos,
           "key": format!("{:?}", key), "value": format!("{:?}", val),
           "with": hex(&h.target.bytes(&with)), "without": hex(&h.target.bytes(&h.wire))})
}

pub fn run(ctx: &'static Ctx) {
    ctx.rule("state = (host map, insertion position, unknown key name, unknown value); decode(with) must equal decode(without); non-trivial = the unknown value has more than one node or is not an integer");
    ctx.assume("unknown values are well-formed definite-length CBOR with shortest-form heads; unknown members are text-keyed (the property's scope)");
    let hosts = hosts();
    for h in &hosts {
        if !matches!(h.baseline, Dec::Ok(_)) {
            machinery_panic(&format!("C06 host seed {} does not decode: {}", h.label, h.baseline.show()));
        }
    }
    let names_all = [
        "transports", "credBlob", "minPinLength", "credProps", "hmac-secret-mc", "prf", "", "x", "Id", "ids",
        // WebAuthn-level names of extensions and of their inputs, and every feature-gated member name
        // (unknown wherever the host does not know it)
        "appid", "appidExclude", "uvm", "largeBlob", "payment", "credentialProtectionPolicy", "enforceCredentialProtectionPolicy", "hmacCreateSecret", "hmacGetSecret", "devicePubKey",
        "thirdPartyPayment", "largeBlobKey", "hmac-secret", "credProtect", "uv", "up", "rk", "displayName", "icon", "url", "name", "alg", "type",
    ];
    let mut keys: Vec<V> = names_all.iter().map(|n| V::t(n)).collect();
    keys.push(V::t(&"k".repeat(255)));
    let nodes = if ctx.thorough() { 5 } else { 3 };
    let values = values_up_to(nodes);
    if ctx.thorough() {
        // the value grammar grows fast: three representative key names keep the product enumerable
        keys = vec![V::t("transports"), V::t(""), V::t(&"k".repeat(255))];
    }
    ctx.note(format!("{} host maps, {} key names, {} unknown values of <= {} nodes", hosts.len(), keys.len(), values.len(), nodes));
    // flat index space: host x position x key x value
    let mut offs: Vec<u64> = Vec::new();
    let mut total = 0u64;
    let per_pos = (keys.len() * values.len()) as u64;
    for h in &hosts {
        offs.push(total);
        total += (h.len as u64 + 1) * per_pos;
    }
    let (hr, kr, vr, or) = (&hosts, &keys, &values, &offs);
    sweep(ctx, "unknown member insertion: value grammar", total, "every host map x every position x key names x every definite CBOR value up to the node bound", move |idx, l| {
        let hi = match or.binary_search(&idx) {
            Ok(i) => i,
            Err(i) => i - 1,
        };
        let h = &hr[hi];
        let r = idx - or[hi];
        let pos = (r / per_pos) as usize;
        let key = &kr[((r % per_pos) / vr.len() as u64) as usize];
        let val = &vr[(r % vr.len() as u64) as usize];
        if key.as_str().map_or(false, |k| h.known.iter().any(|n| n == k)) {
            l.bump("skipped: key known to this host");
            return;
        }
        if val.nodes() > 1 || !matches!(val, V::U(_) | V::N(_)) {
            l.nontrivial += 1;
        }
        let v = check_insert(h, pos, key, val);
        l.bump(if v.ok { "identical" } else { "differs" });
        if !v.ok {
            l.fail(ctx, idx, v, || icase(h, pos, key, val));
        }
    });
    // key names derived from the names each host knows (aliases, case variants, components,
    // prefixes, suffixes): all of them are unknown to the host and must be skipped
    let derived = |known: &Vec<String>| -> Vec<String> {
        let mut out: Vec<String> = Vec::new();
        let all_known: Vec<String> = hosts.iter().flat_map(|h| h.known.clone()).collect();
        for k in all_known.iter() {
            out.push(k.to_lowercase());
            out.push(k.to_uppercase());
            // camelCase / kebab-case components
            let mut comp = String::new();
            let mut comps: Vec<String> = Vec::new();
            for ch in k.chars() {
                if (ch.is_uppercase() || ch == '-' || ch == '_') && !comp.is_empty() {
                    comps.push(comp.clone());
                    comp.clear();
                }
                if ch != '-' && ch != '_' {
                    comp.push(ch);
                }
            }
            if !comp.is_empty() {
                comps.push(comp);
            }
            for c in &comps {
                out.push(c.clone());
                out.push(c.to_lowercase());
            }
            for i in 1..k.len() {
                if k.is_char_boundary(i) {
                    out.push(k[..i].to_string());
                    out.push(k[i..].to_string());
                }
            }
            out.push(format!("{}s", k));
            out.push(format!("_{}", k));
        }
        out.sort();
        out.dedup();
        out.retain(|n| !known.contains(n));
        out
    };
    let mut dcases: Vec<(usize, usize, String, V)> = Vec::new();
    for (hi, h) in hosts.iter().enumerate() {
        for name in derived(&h.known) {
            for val in [V::Bool(true), V::U(1), V::t("x"), V::M(vec![(V::U(1), V::U(2))])] {
                for pos in [0, h.len] {
                    dcases.push((hi, pos, name.clone(), val.clone()));
                }
            }
        }
    }
    let dr = &dcases;
    sweep(ctx, "unknown member insertion: key names derived from known names", dcases.len() as u64, "for every host: lower/upper case, components, every proper prefix and suffix, plural and underscore variants of every member name known to any host (minus the names the host itself knows) x 4 value kinds x first / last position", move |idx, l| {
        let (hi, pos, name, val) = &dr[idx as usize];
        let h = &hr[*hi];
        l.nontrivial += 1;
        let v = check_insert(h, *pos, &V::t(name), val);
        l.bump(if v.ok { "identical" } else { "differs" });
        if !v.ok {
            l.fail(ctx, idx, v, || icase(h, *pos, &V::t(name), val));
        }
    });
    // long runs of one repeated two-byte item (a second byte that looks like a CBOR head must not
    // confuse whatever skips the value): every second byte, five item kinds, runs of 30 / 40 / 100
    {
        let mut vals: Vec<(String, V)> = Vec::new();
        for n in [30usize, 40, 100] {
            for b in 0..=255u8 {
                if b >= 24 {
                    vals.push((format!("{} x uint({})", n, b), V::A(vec![V::U(b as u64); n])));
                    vals.push((format!("{} x nint({})", n, b), V::A(vec![V::N(b as u64); n])));
                }
                if b >= 32 {
                    vals.push((format!("{} x simple({})", n, b), V::A(vec![V::Simple(b); n])));
                }
                vals.push((format!("{} x h'{:02x}'", n, b), V::A(vec![V::B(vec![b]); n])));
                if b < 0x80 {
                    vals.push((format!("{} x text U+{:04X}", n, b), V::A(vec![V::t(&(b as char).to_string()); n])));
                }
            }
        }
        // one host of each map type is enough here: the skipping code is shared
        let mut seen = std::collections::BTreeSet::new();
        let picks: Vec<usize> = hosts.iter().enumerate().filter(|(_, h)| seen.insert(h.label.rsplit('/').next().unwrap_or("").trim_end_matches(|c: char| c.is_ascii_digit() || c == '[' || c == ']').to_string())).map(|(i, _)| i).collect();
        let (vr, pr) = (&vals, &picks);
        sweep(ctx, "unknown member insertion: long runs of one two-byte item", (vals.len() * picks.len()) as u64, "arrays of 30 / 40 / 100 copies of uint8(b), nint8(b), simple(b), a one-byte byte string b, a one-character text b for every byte b, as value of an unknown member at the end of one host of each map type", move |idx, l| {
            let (what, val) = &vr[(idx as usize) / pr.len()];
            let h = &hr[pr[(idx as usize) % pr.len()]];
            l.nontrivial += 1;
            let v = check_insert(h, h.len, &V::t("zzrun"), val);
            l.bump(if v.ok { "identical" } else { "differs" });
            if !v.ok {
                let _ = what;
                l.fail(ctx, idx, v, || icase(h, h.len, &V::t("zzrun"), val));
            }
        });
    }
    // several unknown members in one host at once (counters, fixed-size bookkeeping)
    let mut mcases: Vec<(usize, usize, u8)> = Vec::new(); // (host, count, placement 0 = front, 1 = back, 2 = interleaved)
    for hi in 0..hosts.len() {
        // 18..=24 and 250..=260 carry the member count of every host across the 23/24 and 255/256 head boundaries
        // (a count narrowed to one byte, a head read with the wrong width); 300 lies well beyond
        for k in [2usize, 3, 6, 7, 8, 9, 15, 16, 17, 18, 19, 20, 21, 22, 23, 24, 32, 33, 64, 100, 250, 251, 252, 253, 254, 255, 256, 257, 258, 259, 260, 300] {
            for placement in 0..3u8 {
                mcases.push((hi, k, placement));
            }
        }
    }
    let mr = &mcases;
    sweep(ctx, "unknown member insertion: many unknown members in one map", mcases.len() as u64, "2..=300 distinct unknown members (mixed value kinds; the counts cross the 23/24 and 255/256 map-head boundaries of every host) added to one host map at the front, at the back or interleaved with the known members", move |idx, l| {
        let (hi, k, placement) = mr[idx as usize];
        let h = &hr[hi];
        let vals = [V::Bool(true), V::U(7), V::t("v"), V::A(vec![V::U(1), V::t("usb")]), V::M(vec![(V::t("a"), V::B(vec![1, 2, 3]))]), V::Null];
        let mut with = h.wire.clone();
        // same result as k calls of treewalk::inserted, without cloning the tree k times
        match treewalk::get_mut(&mut with, &h.path).expect("path") {
            V::M(m) => {
                for j in 0..k {
                    let pos = match placement {
                        0 => 0,
                        1 => usize::MAX,
                        _ => (j * 2 + 1).min(h.len + j),
                    };
                    m.insert(pos.min(m.len()), (V::t(&format!("unk{:03}", j)), vals[j % vals.len()].clone()));
                }
            }
            _ => panic!("many-unknown-members: host is not a map"),
        }
        let bytes = h.target.bytes(&with);
        l.nontrivial += 1;
        let got = h.target.observe_bytes(&bytes);
        let ok = got == h.baseline;
        l.bump(if ok { "identical" } else { "differs" });
        if !ok {
            let v = Verdict::fail(format!("{}|{}|many-unknown-members|{}", P, h.target.name(), got.class()), format!("same as without the unknown members: {}", h.baseline.show()), format!("{} with {} unknown members (placement {})", got.show(), k, placement));
            l.fail(ctx, idx, v, || json!({"kind": "unknown-member", "target": h.target.to_json(), "host": h.label, "count": k, "with": hex(&bytes), "without": hex(&h.target.bytes(&h.wire))}));
        }
    });
    // unknown values that fill the message up to the 7609-byte limit (and half of it)
    let mut bcases: Vec<(usize, usize, V)> = Vec::new();
    for (hi, h) in hosts.iter().enumerate() {
        let base = h.target.bytes(&h.wire).len();
        for target_total in [MAX_MSG, MAX_MSG - 1, 3073, 3072, 4096, 1025] {
            if target_total <= base + 10 {
                continue;
            }
            // key "zz" (3 bytes) + value head (3 bytes for lengths >= 256) + content
            let content = target_total - base - 3 - 3;
            for val in [V::B(vec![0x5a; content]), V::T(vec![b'q'; content])] {
                for pos in [0, h.len] {
                    bcases.push((hi, pos, val.clone()));
                }
            }
        }
    }
    let br = &bcases;
    sweep(ctx, "unknown member insertion: message-filling values", bcases.len() as u64, "byte and text strings sized so that the whole message is exactly 7609, 7608, 4096, 3073, 3072 or 1025 bytes, first / last position of every host", move |idx, l| {
        let (hi, pos, val) = &br[idx as usize];
        let h = &hr[*hi];
        l.nontrivial += 1;
        let v = check_insert(h, *pos, &V::t("zz"), val);
        l.bump(if v.ok { "identical" } else { "differs" });
        l.bump("message-filling unknown value");
        if !v.ok {
            l.fail(ctx, idx, v, || icase(h, *pos, &V::t("zz"), val));
        }
    });
    // nesting chains and real-world extras at every position of every host
    let max_depth = if ctx.thorough() { 2000 } else { 16 };
    let mut extra: Vec<(V, V)> = real_world();
    let mut depths: Vec<usize> = (1..=16).collect();
    if ctx.thorough() {
        depths.extend([32, 64, 128, 256, 512, 1000, 2000]);
    }
    for d in depths.iter().filter(|d| **d <= max_depth) {
        for kind in 0..3u8 {
            let c = super::c04::chain(kind, *d);
            let v = refcbor::parse(&c).unwrap().value;
            extra.push((V::t("zz"), v));
        }
    }
    let mut offs2: Vec<u64> = Vec::new();
    let mut total2 = 0u64;
    for h in &hosts {
        offs2.push(total2);
        total2 += (h.len as u64 + 1) * extra.len() as u64;
    }
    let (er, or2) = (&extra, &offs2);
    sweep(ctx, "unknown member insertion: nesting chains and real-world extras", total2, "arrays / maps / tags nested to the depth bound, transports, credProps, prf, credBlob, minPinLength, hmac-secret-mc at every position of every host", move |idx, l| {
        let hi = match or2.binary_search(&idx) {
            Ok(i) => i,
            Err(i) => i - 1,
        };
        let h = &hr[hi];
        let r = idx - or2[hi];
        let pos = (r / er.len() as u64) as usize;
        let (key, val) = &er[(r % er.len() as u64) as usize];
        if key.as_str().map_or(false, |k| h.known.iter().any(|n| n == k)) {
            l.bump("skipped: key known to this host");
            return;
        }
        l.nontrivial += 1;
        let v = check_insert(h, pos, key, val);
        l.bump(if v.ok { "identical" } else { "differs" });
        if !v.ok {
            l.fail(ctx, idx, v, || icase(h, pos, key, val));
        }
    });
    ctx.require_outcomes(&["identical", "message-filling unknown value"]);
    ctx.inner.lock().unwrap().histogram.entry("differs".into()).or_insert(0);
    for h in hosts.iter().take(40) {
        ctx.hist(&format!("host {}", h.label.splitn(2, ':').nth(1).unwrap_or("")), 1);
    }
    if let Some(h) = hosts.iter().find(|h| h.label.contains("excludeList")) {
        ctx.sample(icase(h, 1, &V::t("transports"), &V::A(vec![V::t("usb"), V::t("nfc")])));
    }
}

pub fn replay(case: &Value) -> Verdict {
    let target = Target::from_json(&case["target"]);
    let with = target.observe_bytes(&unhex(case["with"].as_str().unwrap()));
    let without = target.observe_bytes(&unhex(case["without"].as_str().unwrap()));
    if with == without && matches!(with, Dec::Ok(_)) {
        Verdict::pass()
    } else {
        Verdict::fail(format!("{}|replay", P), without.show(), with.show())
    }
}
