//! C07 — authenticator data is laid out byte-for-byte as WebAuthn specifies.

use crate::bind;
use crate::core::*;
use crate::refcbor::{encode, hex, V};
use crate::refmodel::fill_bytes;
use crate::respcheck::check_canonical;
use crate::spec::*;
use crate::subject::*;
use ctap_types::ctap2::{get_assertion, make_credential, AuthenticatorDataFlags};
use serde_json::{json, Value};

const P: &str = "C07";

#[derive(Clone, Debug)]
pub struct Case {
    pub mc: bool,
    /// subset of {UP, UV, AT, ED} as bits 0..3
    pub flags: u8,
    pub count: u32,
    pub attested: bool,
    pub aaguid: usize,
    pub id: usize,
    pub pk: usize,
    /// None = no extensions; Some(choices): per extension member 0 = absent, 1/2 = value
    pub ext: Option<Vec<u8>>,
}

pub const COUNTERS: [u32; 6] = [0, 1, 0xff, 0x100, 0x01020304, 0xffff_ffff];

pub fn ext_members(mc: bool) -> Vec<&'static str> {
    let mut v = if mc { vec!["credProtect", "hmac-secret", "largeBlobKey"] } else { vec!["hmac-secret"] };
    if f_t() {
        v.push("thirdPartyPayment");
    }
    v
}

/// value of extension member `name` for choice c (1..)
fn ext_value(mc: bool, name: &str, c: u8) -> Option<V> {
    match (mc, name) {
        (true, "credProtect") => [V::U(1), V::U(255), V::U(24)].get(c as usize - 1).cloned(),
        (false, "hmac-secret") => [0usize, 32, 64, 80].get(c as usize - 1).map(|l| V::B(fill_bytes(*l, 77))),
        _ => [V::Bool(false), V::Bool(true)].get(c as usize - 1).cloned(),
    }
}

pub fn ext_radix(mc: bool, name: &str) -> u64 {
    let mut n = 1;
    while ext_value(mc, name, n as u8).is_some() {
        n += 1;
    }
    n
}

fn ext_view(c: &Case) -> Option<V> {
    c.ext.as_ref().map(|ch| {
        let mut m = Vec::new();
        for (n, x) in ext_members(c.mc).iter().zip(ch) {
            if *x != 0 {
                m.push((V::t(n), ext_value(c.mc, n, *x).unwrap()));
            }
        }
        V::M(m)
    })
}

pub fn spec_flag_byte(bits: u8) -> u8 {
    let mut b = 0;
    if bits & 1 != 0 {
        b |= 0x01; // UP
    }
    if bits & 2 != 0 {
        b |= 0x04; // UV
    }
    if bits & 4 != 0 {
        b |= 0x40; // AT
    }
    if bits & 8 != 0 {
        b |= 0x80; // ED
    }
    b
}

fn real_flags(bits: u8) -> AuthenticatorDataFlags {
    let mut f = AuthenticatorDataFlags::empty();
    if bits & 1 != 0 {
        f |= AuthenticatorDataFlags::USER_PRESENCE;
    }
    if bits & 2 != 0 {
        f |= AuthenticatorDataFlags::USER_VERIFIED;
    }
    if bits & 4 != 0 {
        f |= AuthenticatorDataFlags::ATTESTED_CREDENTIAL_DATA;
    }
    if bits & 8 != 0 {
        f |= AuthenticatorDataFlags::EXTENSION_DATA;
    }
    f
}

pub struct Buffers {
    pub rp: [u8; 32],
    pub aaguid: Vec<u8>,
    pub id: Vec<u8>,
    pub pk: Vec<u8>,
}

impl Buffers {
    pub fn new() -> Buffers {
        Buffers::with_content(0)
    }
    /// content 0 = filler pattern, 1 = all zero, 2 = all 0xFF, 3 = pattern with a leading zero byte
    pub fn with_content(content: u8) -> Buffers {
        let shape = |mut v: Vec<u8>| -> Vec<u8> {
            match content {
                1 => v.iter_mut().for_each(|b| *b = 0),
                2 => v.iter_mut().for_each(|b| *b = 0xff),
                3 => v[0] = 0,
                _ => {}
            }
            v
        };
        let mut rp = [0u8; 32];
        rp.copy_from_slice(&shape(fill_bytes(32, 1)));
        Buffers {
            rp,
            aaguid: shape(fill_bytes(32, 2)),
            id: shape(fill_bytes(70000, 3)),
            pk: shape(fill_bytes(1024, 4)),
        }
    }
}

/// reference layout; None = must fail
pub fn expected(c: &Case, b: &Buffers) -> Option<Vec<u8>> {
    let mut out = Vec::new();
    out.extend_from_slice(&b.rp);
    out.push(spec_flag_byte(c.flags));
    out.extend_from_slice(&c.count.to_be_bytes());
    if c.mc && c.attested {
        if c.id > 65535 {
            return None;
        }
        out.extend_from_slice(&b.aaguid[..c.aaguid]);
        out.extend_from_slice(&(c.id as u16).to_be_bytes());
        out.extend_from_slice(&b.id[..c.id]);
        out.extend_from_slice(&b.pk[..c.pk]);
    }
    if let Some(e) = ext_view(c) {
        out.extend(encode(&e.canon()));
    }
    if out.len() > AUTH_DATA_MAX {
        return None;
    }
    Some(out)
}

/// the real serializer; Ok(Some(bytes)) / Ok(None) = returned an error / Err = panic
pub fn observed(c: &Case, b: &Buffers) -> Result<Option<Vec<u8>>, String> {
    guard(|| {
        if c.mc {
            let att = if c.attested {
                Some(make_credential::AttestedCredentialData {
                    aaguid: &b.aaguid[..c.aaguid],
                    credential_id: &b.id[..c.id],
                    credential_public_key: &b.pk[..c.pk],
                })
            } else {
                None
            };
            let ad = make_credential::AuthenticatorData {
                rp_id_hash: &b.rp,
                flags: real_flags(c.flags),
                sign_count: c.count,
                attested_credential_data: att,
                extensions: ext_view(c).map(|v| bind::build_mc_ext(&v)),
            };
            let out = ad.serialize().ok().map(|x| x.to_vec());
            // a clone (also of the extensions alone) must serialise to the same bytes
            let mut twin = ad.clone();
            twin.extensions = ad.extensions.clone();
            if twin.serialize().ok().map(|x| x.to_vec()) != out {
                panic!("a clone of the authenticator data serialises differently");
            }
            out
        } else {
            // the assertion flavour has no attested data: absent, or present-but-empty
            let ext = ext_view(c).map(|v| bind::build_ga_ext_out(&v));
            let ad = get_assertion::AuthenticatorData {
                rp_id_hash: &b.rp,
                flags: real_flags(c.flags),
                sign_count: c.count,
                attested_credential_data: if c.attested { Some(get_assertion::NoAttestedCredentialData) } else { None },
                extensions: ext.clone(),
            };
            let out = ad.serialize().ok().map(|x| x.to_vec());
            let twin = get_assertion::AuthenticatorData {
                rp_id_hash: &b.rp,
                flags: real_flags(c.flags),
                sign_count: c.count,
                attested_credential_data: if c.attested { Some(get_assertion::NoAttestedCredentialData) } else { None },
                extensions: ext.clone(),
            };
            if twin.serialize().ok().map(|x| x.to_vec()) != out {
                panic!("a clone of the extension outputs serialises differently");
            }
            out
        }
    })
}

pub fn check(c: &Case, b: &Buffers) -> Verdict {
    let want = expected(c, b);
    let fl = if c.mc { "mc" } else { "ga" };
    match observed(c, b) {
        Err(p) => Verdict::fail(format!("{}|{}|panic", P, fl), "no panic", p),
        Ok(got) => {
            if got == want {
                return Verdict::pass();
            }
            let what = match (&want, &got) {
                (None, Some(_)) => "accepted-beyond-capacity".to_string(),
                (Some(_), None) => "rejected-within-capacity".to_string(),
                (Some(w), Some(g)) => {
                    let i = w.iter().zip(g.iter()).position(|(a, b)| a != b).unwrap_or(w.len().min(g.len()));
                    let region = if i < 32 {
                        "rpIdHash"
                    } else if i == 32 {
                        "flags"
                    } else if i < 37 {
                        "signCount"
                    } else {
                        "tail"
                    };
                    format!("layout-differs-in-{}", region)
                }
                _ => unreachable!(),
            };
            Verdict::fail(
                format!("{}|{}|{}", P, fl, what),
                want.map_or("Err".into(), |w| hex(&w)),
                got.map_or("Err".into(), |g| hex(&g)),
            )
        }
    }
}

pub fn case_json(c: &Case) -> Value {
    json!({"kind": "authdata", "mc": c.mc, "flags": c.flags, "count": c.count, "attested": c.attested,
           "aaguid": c.aaguid, "id": c.id, "pk": c.pk, "ext": c.ext})
}

pub fn case_from(j: &Value) -> Case {
    Case {
        mc: j["mc"].as_bool().unwrap(),
        flags: j["flags"].as_u64().unwrap() as u8,
        count: j["count"].as_u64().unwrap() as u32,
        attested: j["attested"].as_bool().unwrap(),
        aaguid: j["aaguid"].as_u64().unwrap() as usize,
        id: j["id"].as_u64().unwrap() as usize,
        pk: j["pk"].as_u64().unwrap() as usize,
        ext: j["ext"].as_array().map(|a| a.iter().map(|x| x.as_u64().unwrap() as u8).collect()),
    }
}

fn id_lengths() -> Vec<usize> {
    let mut v: Vec<usize> = (0..=700).collect();
    v.extend([65535, 65536, 70000]);
    v
}

/// all extension choices for a flavour: index 0 = no extensions at all
fn ext_choices(mc: bool) -> Vec<Option<Vec<u8>>> {
    let names = ext_members(mc);
    let radices: Vec<u64> = names.iter().map(|n| ext_radix(mc, n)).collect();
    let mut out = vec![None];
    let total = product(&radices);
    for i in 0..total {
        let mut d = vec![0u64; radices.len()];
        unrank(i, &radices, &mut d);
        out.push(Some(d.iter().map(|x| *x as u8).collect()));
    }
    out
}

pub fn run(ctx: &'static Ctx) {
    ctx.rule("state = (flavour, flag subset, counter, attested data present, aaguid/id/public-key lengths, extension member choices); each is serialised by the real code and compared byte for byte with the WebAuthn layout; non-trivial = attested data or extensions present");
    let bufs = Buffers::new();
    let ids = id_lengths();
    let pks = [0usize, 1, 32, 77, 100, 255, 256, 257, 258, 300, 364, 365, 400, 500, 600, 620, 621, 622, 623, 636, 637, 638, 639, 640, 641, 660, 700, 1000];
    let aag = [0usize, 16, 17];
    for mc in [true, false] {
        let exts = ext_choices(mc);
        let fl = if mc { "mc" } else { "ga" };
        if mc {
            // grid A: full length grid x extension choices at one flag set / counter (quick), all (thorough)
            let (flagsets, counters): (Vec<u8>, Vec<u32>) = if ctx.thorough() {
                ((0..16).collect(), COUNTERS.to_vec())
            } else {
                (vec![0b0101], vec![0x01020304])
            };
            let ext_sel: Vec<usize> = if ctx.thorough() { (0..exts.len()).collect() } else { vec![0, 1, exts.len() / 2, exts.len() - 1] };
            let rad = [flagsets.len() as u64, counters.len() as u64, ids.len() as u64, pks.len() as u64, aag.len() as u64, ext_sel.len() as u64];
            let (exts2, bufs2) = (&exts, &bufs);
            sweep(ctx, &format!("{} layout: length grid", fl), product(&rad), "flags x counters x every credential-id length 0..=700,65535,65536,70000 x 28 public-key lengths (0..=1000, around 256, dense around the 639-byte remainder) x aaguid lengths x extension choices", |idx, l| {
                let mut d = [0u64; 6];
                unrank(idx, &rad, &mut d);
                let c = Case {
                    mc: true,
                    flags: flagsets[d[0] as usize],
                    count: counters[d[1] as usize],
                    attested: true,
                    id: ids[d[2] as usize],
                    pk: pks[d[3] as usize],
                    aaguid: aag[d[4] as usize],
                    ext: exts2[ext_sel[d[5] as usize]].clone(),
                };
                l.nontrivial += 1;
                let v = check(&c, bufs2);
                l.bump(if expected(&c, bufs2).is_some() { "fits" } else { "must fail" });
                if !v.ok {
                    l.fail(ctx, idx, v, || case_json(&c));
                }
            });
        }
        // grid B: all flags x all counters x attested absent/present (reduced lengths) x all extension choices
        let red_ids = [0usize, 1, 16, 255, 256, 500, 560, 600, 640, 700];
        let rad = [16u64, COUNTERS.len() as u64, if mc { 1 + red_ids.len() as u64 } else { 2 }, exts.len() as u64];
        let (exts2, bufs2) = (&exts, &bufs);
        sweep(ctx, &format!("{} layout: flags x counters x extensions", fl), product(&rad), "all 16 flag subsets x 6 counters x attested data absent / present at 10 id lengths x every extension choice", |idx, l| {
            let mut d = [0u64; 4];
            unrank(idx, &rad, &mut d);
            let c = Case {
                mc,
                flags: d[0] as u8,
                count: COUNTERS[d[1] as usize],
                attested: d[2] != 0,
                id: if d[2] != 0 { red_ids[d[2] as usize - 1] } else { 0 },
                pk: 77,
                aaguid: 16,
                ext: exts2[d[3] as usize].clone(),
            };
            if c.attested || c.ext.is_some() {
                l.nontrivial += 1;
            }
            let v = check(&c, bufs2);
            l.bump(if expected(&c, bufs2).is_some() { "fits" } else { "must fail" });
            if !v.ok {
                l.fail(ctx, idx, v, || case_json(&c));
            }
        });
    }
    // content classes of the opaque parts: all zero, all 0xFF, leading zero byte
    for content in 1..=3u8 {
        let cb = Buffers::with_content(content);
        for mc in [true, false] {
            let exts = ext_choices(mc);
            let red_ids = [0usize, 1, 16, 255, 256, 544, 545, 560, 700];
            let rad = [16u64, 2, if mc { 1 + red_ids.len() as u64 } else { 2 }, exts.len() as u64];
            let (exts2, cb2) = (&exts, &cb);
            sweep(ctx, &format!("{} layout: content class {}", if mc { "mc" } else { "ga" }, content), product(&rad), "rp-id hash, aaguid, credential id and public key all zero / all 0xFF / with a leading zero byte x flags x 2 counters x attested lengths x every extension choice", move |idx, l| {
                let mut d = [0u64; 4];
                unrank(idx, &rad, &mut d);
                let c = Case { mc, flags: d[0] as u8, count: [0u32, 0xffff_ffff][d[1] as usize], attested: d[2] != 0, id: if d[2] != 0 { red_ids[d[2] as usize - 1] } else { 0 }, pk: 77, aaguid: 16, ext: exts2[d[3] as usize].clone() };
                l.nontrivial += 1;
                let v = check(&c, cb2);
                l.bump(if expected(&c, cb2).is_some() { "fits" } else { "must fail" });
                if !v.ok {
                    l.fail(ctx, idx, v, || {
                        let mut j = case_json(&c);
                        j["content"] = json!(content);
                        j
                    });
                }
            });
        }
    }
    {
        let mut items: Vec<(String, Box<dyn Fn() -> String + Sync>)> = Vec::new();
        let mut cases: Vec<Case> = Vec::new();
        for mc in [true, false] {
            let exts = ext_choices(mc);
            for (flags, count, attested, id, ext) in [(0u8, 0u32, false, 0usize, 0usize), (0xf, 0xffff_ffff, mc, 16, 1), (5, 0x01020304, mc, 560, exts.len() - 1), (9, 1, mc, 700, exts.len() / 2), (1, 0x100, mc, 65536, 0)] {
                cases.push(Case { mc, flags, count, attested, aaguid: 16, id, pk: 77, ext: exts[ext].clone() });
            }
        }
        for c in cases {
            items.push((format!("{:?}", c), Box::new(move || {
                thread_local! { static B: Buffers = Buffers::new(); }
                B.with(|b| match observed(&c, b) {
                    Ok(Some(x)) => hex(&x),
                    Ok(None) => "Err".into(),
                    Err(p) => format!("PANIC {}", p),
                })
            })));
        }
        pair_histories(ctx, P, "serialize call pairs", "every ordered pair of 10 authenticator-data cases (fitting, overflowing, with and without extensions) serialised back to back", &items);
    }
    extension_maps_canonical(ctx, P);
    ctx.require_outcomes(&["fits", "must fail"]);
    ctx.sample(json!({"flavour": "mc", "flags": "UP|AT", "count": "0x01020304", "aaguid": 16, "id": 560, "pk": 77, "ext": "none", "oracle": "rpIdHash||41||01020304||aaguid||0230||id||pk; total 692 > 676 -> Err"}));
    ctx.sample(case_json(&Case { mc: false, flags: 9, count: 1, attested: false, aaguid: 0, id: 0, pk: 0, ext: Some(vec![2]) }));
}

/// C03(c): the extension map at the tail of authenticator data is canonical for every subset
pub fn extension_maps_canonical(ctx: &'static Ctx, prop: &'static str) {
    let bufs = Buffers::new();
    for mc in [true, false] {
        let exts = ext_choices(mc);
        let (exts2, bufs2) = (&exts, &bufs);
        sweep(ctx, &format!("{} authenticator-data extension map canonical", if mc { "mc" } else { "ga" }), exts.len() as u64 - 1, "every choice of extension outputs; the tail after the fixed-layout part must be canonical CBOR", |idx, l| {
            let c = Case {
                mc,
                flags: 0x9,
                count: 7,
                attested: false,
                aaguid: 0,
                id: 0,
                pk: 0,
                ext: exts2[idx as usize + 1].clone(),
            };
            l.nontrivial += 1;
            let v = match observed(&c, bufs2) {
                Err(p) => Verdict::fail(format!("{}|authdata|panic", prop), "no panic", p),
                Ok(None) => Verdict::fail(format!("{}|authdata|rejected", prop), "Ok", "Err"),
                Ok(Some(b)) => check_canonical(prop, if mc { "authdata-mc-extensions" } else { "authdata-ga-extensions" }, &b[37..]),
            };
            l.bump("extension map checked");
            if !v.ok {
                l.fail(ctx, idx, v, || case_json(&c));
            }
        });
    }
}

/// C03(c) near the capacity frontier: whenever the serializer succeeds, the bytes after the
/// fixed-layout part and the attested credential data must be one canonical CBOR map
pub fn extension_maps_near_capacity(ctx: &'static Ctx, prop: &'static str) {
    let bufs = Buffers::new();
    let exts = ext_choices(true);
    let ids: Vec<usize> = (480..=600).collect();
    let rad = [exts.len() as u64 - 1, ids.len() as u64];
    let (exts2, bufs2, ids2) = (&exts, &bufs, &ids);
    sweep(ctx, "mc authenticator-data extension map near the 676-byte capacity", product(&rad), "every extension choice x credential-id length 480..=600 (aaguid 16, public key 77): a successful result must end in one complete canonical map", move |idx, l| {
        let mut d = [0u64; 2];
        unrank(idx, &rad, &mut d);
        let c = Case { mc: true, flags: 0xc1, count: 9, attested: true, aaguid: 16, id: ids2[d[1] as usize], pk: 77, ext: exts2[d[0] as usize + 1].clone() };
        l.nontrivial += 1;
        let v = match observed(&c, bufs2) {
            Err(p) => Verdict::fail(format!("{}|authdata|panic", prop), "no panic", p),
            Ok(None) => {
                l.bump("rejected (beyond capacity)");
                Verdict::pass()
            }
            Ok(Some(b)) => {
                l.bump("extension map checked");
                let off = 37 + 16 + 2 + c.id + c.pk;
                if b.len() < off {
                    Verdict::fail(format!("{}|authdata-mc-extensions|tail-missing", prop), "an extension map", "output shorter than the fixed part")
                } else {
                    check_canonical(prop, "authdata-mc-extensions", &b[off..])
                }
            }
        };
        if !v.ok {
            l.fail(ctx, idx, v, || case_json(&c));
        }
    });
}

pub fn replay_canonical(case: &Value) -> Verdict {
    let c = case_from(case);
    match observed(&c, &Buffers::new()) {
        Err(p) => Verdict::fail("C03|authdata|panic", "no panic", p),
        Ok(None) => Verdict::fail("C03|authdata|rejected", "Ok", "Err"),
        Ok(Some(b)) => {
            let off = if c.attested { 37 + c.aaguid + 2 + c.id + c.pk } else { 37 };
            if b.len() < off {
                return Verdict::fail("C03|authdata|tail-missing", "an extension map", "output shorter than the fixed part");
            }
            check_canonical("C03", "authdata-extensions", &b[off..])
        }
    }
}

pub fn replay(case: &Value) -> Verdict {
    check(&case_from(case), &Buffers::with_content(case["content"].as_u64().unwrap_or(0) as u8))
}
