//! C08 — CTAP1/U2F APDU parsing is total and follows the U2F raw message format.

use crate::core::*;
use crate::refcbor::{hex, unhex};
use crate::refmodel::fill_bytes;
use crate::subject::*;
use ctap_types::ctap1;
use iso7816::command::CommandView;
use serde_json::{json, Value};

const P: &str = "C08";

#[derive(Clone, Debug, PartialEq)]
pub enum Exp {
    /// iso7816 refuses the APDU before ctap-types sees it (class 0xFF)
    Unreachable,
    Class,
    Version,
    Register,
    Authenticate,
    BadData,
    BadIns,
}

/// the decision procedure of the U2F raw message format, as a plain function
pub fn expected(cla: u8, ins: u8, p1: u8, data: &[u8]) -> Exp {
    if cla == 0xff {
        return Exp::Unreachable;
    }
    if cla != 0 {
        return Exp::Class;
    }
    match ins {
        3 => Exp::Version,
        1 => {
            if data.len() == 64 {
                Exp::Register
            } else {
                Exp::BadData
            }
        }
        2 => {
            if matches!(p1, 0x03 | 0x07 | 0x08) && data.len() >= 65 && data.len() == 65 + data[64] as usize {
                Exp::Authenticate
            } else {
                Exp::BadData
            }
        }
        _ => Exp::BadIns,
    }
}

/// observation of the real conversion, reduced to the same vocabulary (+ extracted slices ok?)
fn observe(r: &ctap1::Result<ctap1::Request<'_>>, p1: u8, data: &[u8]) -> (Exp, bool) {
    match r {
        Ok(ctap1::Request::Version) => (Exp::Version, true),
        Ok(ctap1::Request::Register(reg)) => {
            let ok = data.len() >= 64 && reg.challenge[..] == data[..32] && reg.app_id[..] == data[32..64];
            (Exp::Register, ok)
        }
        Ok(ctap1::Request::Authenticate(a)) => {
            let ok = data.len() >= 65 && a.challenge[..] == data[..32] && a.app_id[..] == data[32..64] && a.key_handle == &data[65..] && a.control_byte as u8 == p1;
            (Exp::Authenticate, ok)
        }
        Err(ctap1::Error::ClassNotSupported) => (Exp::Class, true),
        Err(ctap1::Error::IncorrectDataParameter) => (Exp::BadData, true),
        Err(ctap1::Error::InstructionNotSupportedOrInvalid) => (Exp::BadIns, true),
        Err(_) => (Exp::Unreachable, false),
    }
}

/// body encodings per ISO 7816-4: 0 short/no Le, 1 short/Le=256, 2 extended/no Le, 3 extended/Le=65536,
/// 4 short/Le=1, 5 extended/Le=0x0102
pub fn body(data: &[u8], enc: u8) -> Option<Vec<u8>> {
    let n = data.len();
    let mut b = Vec::with_capacity(n + 5);
    match enc {
        0 => {
            if n > 255 {
                return None;
            }
            if n > 0 {
                b.push(n as u8);
                b.extend_from_slice(data);
            }
        }
        1 => {
            if n > 255 {
                return None;
            }
            if n > 0 {
                b.push(n as u8);
                b.extend_from_slice(data);
            }
            b.push(0x00); // Le = 256
        }
        2 => {
            if n == 0 {
                return None; // identical to encoding 0
            }
            b.push(0);
            b.extend_from_slice(&(n as u16).to_be_bytes());
            b.extend_from_slice(data);
        }
        3 => {
            b.push(0);
            if n > 0 {
                b.extend_from_slice(&(n as u16).to_be_bytes());
                b.extend_from_slice(data);
            }
            b.extend_from_slice(&[0x00, 0x00]); // Le = 65536
        }
        4 => {
            // short with Le = 1
            if n > 255 {
                return None;
            }
            if n > 0 {
                b.push(n as u8);
                b.extend_from_slice(data);
            }
            b.push(0x01);
        }
        _ => {
            // extended with Le = 0x0102
            b.push(0);
            if n > 0 {
                b.extend_from_slice(&(n as u16).to_be_bytes());
                b.extend_from_slice(data);
            }
            b.extend_from_slice(&[0x01, 0x02]);
        }
    }
    // encodings whose body would be re-read by ISO 7816-4 as another case are not valid encodings
    // of (data, Le) and are left out: a short Le byte equal to 1 + n with n = 0 is case 2S (fine)
    Some(b)
}

pub struct Shape {
    pub data: Vec<u8>,
    pub enc: u8,
    pub body: Vec<u8>,
}

pub fn shapes() -> Vec<Shape> {
    shapes_with(0)
}

/// content 0 = filler pattern, 1 = all zero, 2 = all 0xFF (data[64] keeps its role as length byte)
pub fn shapes_with(content: u8) -> Vec<Shape> {
    let mut out = Vec::new();
    let lens = [0usize, 1, 8, 63, 64, 65, 66, 67, 254, 255, 256, 257, 318, 319, 320, 321, 7609, 7610, 65535];
    for len in lens {
        // data[64] = announced key-handle length; around the consistent value for the lengths at
        // the short / extended encoding boundary
        let d64s: Vec<u8> = if (254..=257).contains(&len) { vec![0, 1, 189, 190, 191, 192, 255] } else { vec![0, 1, 2, 253, 254, 255] };
        for d64 in d64s {
            if len <= 64 && d64 != 0 {
                continue; // data[64] does not exist: one shape per short length
            }
            let mut data = fill_bytes(len, 11);
            match content {
                1 => data.iter_mut().for_each(|b| *b = 0),
                2 => data.iter_mut().for_each(|b| *b = 0xff),
                _ => {}
            }
            if len > 64 {
                data[64] = d64;
            }
            if len == 8 && content == 0 {
                // the FIDO applet identifier (as in an ISO 7816 SELECT by name)
                data.copy_from_slice(&[0xa0, 0x00, 0x00, 0x06, 0x47, 0x2f, 0x00, 0x01]);
            }
            if len > 7000 && d64 > 1 {
                continue; // two very large shapes are enough
            }
            for enc in 0..6u8 {
                if let Some(b) = body(&data, enc) {
                    out.push(Shape { data: data.clone(), enc, body: b });
                }
            }
        }
    }
    if content == 0 {
        // data fields whose last bytes repeat the Le field that follows them (extended Le 01 02,
        // 00 00; short Le 01, 00), with the announced key-handle length 0..=3 short of / equal to
        // what is there
        for kh in [0usize, 16] {
            for surplus in 0..=3usize {
                let len = 65 + kh + surplus;
                for (enc, tail) in [(5u8, &[0x01u8, 0x02][..]), (3, &[0x00, 0x00][..]), (4, &[0x01][..]), (1, &[0x00][..]), (5, &[0x00, 0x01, 0x02][..])] {
                    let mut data = fill_bytes(len, 11);
                    data[64] = kh as u8;
                    let n = data.len();
                    if tail.len() <= n - 65 {
                        data[n - tail.len()..].copy_from_slice(tail);
                    }
                    if let Some(b) = body(&data, enc) {
                        out.push(Shape { data: data.clone(), enc, body: b });
                    }
                }
            }
        }
    }
    out
}

fn apdu(cla: u8, ins: u8, p1: u8, p2: u8, body: &[u8], buf: &mut Vec<u8>) {
    buf.clear();
    buf.extend_from_slice(&[cla, ins, p1, p2]);
    buf.extend_from_slice(body);
}

pub fn check_view(cla: u8, ins: u8, p1: u8, data: &[u8], bytes: &[u8]) -> Verdict {
    let want = expected(cla, ins, p1, data);
    breadcrumb(TAG_APDU, bytes);
    let r = guard(|| match CommandView::try_from(bytes) {
        Err(_) => (Exp::Unreachable, true),
        Ok(view) => {
            if view.data() != data {
                return (Exp::Unreachable, false);
            }
            let r = ctap1::Request::try_from(view);
            observe(&r, p1, data)
        }
    });
    verdict(want, r, cla, ins, p1, "view")
}

/// owned command buffers of other capacities (exactly the data length, one more, one less)
pub fn check_owned_cap(cap: usize, cla: u8, ins: u8, p1: u8, data: &[u8], bytes: &[u8]) -> Verdict {
    let want = if data.len() > cap { Exp::Unreachable } else { expected(cla, ins, p1, data) };
    breadcrumb(TAG_APDU, bytes);
    macro_rules! go {
        ($n:literal) => {
            guard(|| match iso7816::Command::<$n>::try_from(bytes) {
                Err(_) => (Exp::Unreachable, true),
                Ok(cmd) => {
                    let r = ctap1::Request::try_from(&cmd);
                    observe(&r, p1, data)
                }
            })
        };
    }
    let r = match cap {
        0 => go!(0),
        1 => go!(1),
        63 => go!(63),
        64 => go!(64),
        65 => go!(65),
        66 => go!(66),
        67 => go!(67),
        68 => go!(68),
        319 => go!(319),
        320 => go!(320),
        321 => go!(321),
        322 => go!(322),
        _ => machinery_panic("owned capacity not instantiated"),
    };
    verdict(want, r, cla, ins, p1, "owned-exact")
}

pub fn check_owned(cla: u8, ins: u8, p1: u8, data: &[u8], bytes: &[u8]) -> Verdict {
    // data beyond the capacity of the owned buffer is refused by iso7816 (TooLong) before ctap-types
    // is reached
    let want = if data.len() > 1024 { Exp::Unreachable } else { expected(cla, ins, p1, data) };
    breadcrumb(TAG_APDU, bytes);
    let r = guard(|| match iso7816::Command::<1024>::try_from(bytes) {
        Err(_) => (Exp::Unreachable, true),
        Ok(cmd) => {
            let r = ctap1::Request::try_from(&cmd);
            observe(&r, p1, data)
        }
    });
    verdict(want, r, cla, ins, p1, "owned")
}

fn verdict(want: Exp, r: Result<(Exp, bool), String>, cla: u8, ins: u8, p1: u8, via: &str) -> Verdict {
    let class = if cla == 0 { "cla=0" } else { "cla!=0" };
    match r {
        Err(p) => Verdict::fail(format!("{}|{}|panic|{}|ins={}", P, via, class, ins.min(4)), format!("{:?}", want), format!("PANIC {}", p)),
        Ok((got, slices_ok)) => {
            if got == want && slices_ok {
                Verdict::pass()
            } else if got == want {
                Verdict::fail(format!("{}|{}|wrong-slices|{:?}", P, via, want), "challenge/application/key handle at offsets 0, 32, 65; control byte = P1", "extracted fields differ from the data")
            } else {
                Verdict::fail(format!("{}|{}|{:?}-instead-of-{:?}|{}", P, via, got, want, class), format!("{:?}", want), format!("{:?} (cla={:#x} ins={:#x} p1={:#x})", got, cla, ins, p1))
            }
        }
    }
}

fn exp_key(e: &Exp) -> &'static str {
    match e {
        Exp::Unreachable => "rejected by iso7816 (class 0xFF)",
        Exp::Class => "ClassNotSupported",
        Exp::Version => "Version",
        Exp::Register => "Register",
        Exp::Authenticate => "Authenticate",
        Exp::BadData => "IncorrectDataParameter",
        Exp::BadIns => "InstructionNotSupportedOrInvalid",
    }
}

pub fn run(ctx: &'static Ctx) {
    ctx.rule("state = (class, instruction, P1, P2, data shape, length encoding); each APDU is built by an own ISO 7816-4 encoder, parsed by iso7816 and converted by the real ctap1 code, then compared with the U2F decision table including the extracted slices; non-trivial = class 0 (the CTAP1 logic is reached)");
    ctx.assume("class 0xFF is rejected by iso7816 before ctap-types is reached; the explorer asserts that and counts it as unreachable");
    let shapes = shapes();
    ctx.note(format!("{} (data shape, encoding) bodies: lengths {{0,1,63,64,65,66,67,318,319,320,321}} x data[64] in {{0,1,2,253,254,255}} x applicable encodings", shapes.len()));
    let sr = &shapes;
    let p1s: [u8; 11] = [0x00, 0x01, 0x02, 0x03, 0x04, 0x06, 0x07, 0x08, 0x09, 0x80, 0xff];
    let p2s: [u8; 3] = [0x00, 0x55, 0xff];
    let run_grid = |name: &str, note: &str, clas: Vec<u8>, inss: Vec<u8>, p1v: Vec<u8>, p2v: Vec<u8>, shape_idx: Vec<usize>, owned: bool| {
        let rad = [clas.len() as u64, inss.len() as u64, p1v.len() as u64, p2v.len() as u64, shape_idx.len() as u64];
        sweep(ctx, name, product(&rad), note, move |idx, l| {
            let mut d = [0u64; 5];
            unrank(idx, &rad, &mut d);
            let (cla, ins, p1, p2) = (clas[d[0] as usize], inss[d[1] as usize], p1v[d[2] as usize], p2v[d[3] as usize]);
            let sh = &sr[shape_idx[d[4] as usize]];
            thread_local! { static BUF: std::cell::RefCell<Vec<u8>> = std::cell::RefCell::new(Vec::with_capacity(66000)); }
            BUF.with(|b| {
                let mut b = b.borrow_mut();
                apdu(cla, ins, p1, p2, &sh.body, &mut b);
                let v = if owned { check_owned(cla, ins, p1, &sh.data, &b) } else { check_view(cla, ins, p1, &sh.data, &b) };
                if cla == 0 {
                    l.nontrivial += 1;
                }
                l.bump(exp_key(&expected(cla, ins, p1, &sh.data)));
                if !v.ok {
                    let bytes = b.clone();
                    l.fail(ctx, idx, v, || json!({"kind": "apdu", "owned": owned, "apdu": hex(&bytes), "data_len": sh.data.len(), "encoding": sh.enc}));
                }
            });
        });
    };
    let all: Vec<u8> = (0..=255).collect();
    let all_shapes: Vec<usize> = (0..shapes.len()).collect();
    // three decisive shapes for the complete header space: no data, valid register, valid authenticate
    let key_shapes: Vec<usize> = shapes
        .iter()
        .enumerate()
        .filter(|(_, s)| s.data.is_empty() || s.data.len() == 64 || (s.data.len() == 66 && s.data[64] == 1))
        .map(|(i, _)| i)
        .collect();
    if ctx.thorough() {
        run_grid("complete header space x all data shapes x all encodings", "256 classes x 256 instructions x 256 P1 x P2 in {00, FF} x every body", all.clone(), all.clone(), all.clone(), vec![0x00, 0xff], all_shapes.clone(), false);
    } else {
        run_grid("all classes x all instructions x 11 P1 x all data shapes x all encodings", "P1 in {00,01,02,03,04,06,07,08,09,80,FF}, P2 = 00", all.clone(), all.clone(), p1s.to_vec(), vec![0x00], all_shapes.clone(), false);
        run_grid("class 0 x all instructions x 11 P1 x P2 in {55, FF} x all data shapes x all encodings", "P2 must not influence the decision", vec![0x00], all.clone(), p1s.to_vec(), p2s[1..].to_vec(), all_shapes.clone(), false);
        run_grid("complete header space x decisive shapes", "256 x 256 x 256 headers x {no data, 64 bytes, 65+1 bytes} x applicable encodings", all.clone(), all.clone(), all.clone(), vec![0x00], key_shapes.clone(), false);
    }
    // content classes of the data field (class 0 only: the CTAP1 logic is reached)
    let zero_shapes = shapes_with(1);
    let ones_shapes = shapes_with(2);
    for (label, sh2) in [("all-zero", &zero_shapes), ("all-0xFF", &ones_shapes)] {
        let rad = [256u64, 256, sh2.len() as u64];
        sweep(ctx, &format!("class 0 x all instructions x all P1 x every body with {} data", label), product(&rad), "challenge / application / key handle bytes all zero resp. all 0xFF", move |idx, l| {
            let mut d = [0u64; 3];
            unrank(idx, &rad, &mut d);
            let (ins, p1) = (d[0] as u8, d[1] as u8);
            let sh = &sh2[d[2] as usize];
            thread_local! { static BUF2: std::cell::RefCell<Vec<u8>> = std::cell::RefCell::new(Vec::with_capacity(66000)); }
            BUF2.with(|b| {
                let mut b = b.borrow_mut();
                apdu(0, ins, p1, 0, &sh.body, &mut b);
                l.nontrivial += 1;
                let v = check_view(0, ins, p1, &sh.data, &b);
                l.bump(exp_key(&expected(0, ins, p1, &sh.data)));
                if !v.ok {
                    let bytes = b.clone();
                    l.fail(ctx, idx, v, || json!({"kind": "apdu", "owned": false, "apdu": hex(&bytes), "data_len": sh.data.len(), "encoding": sh.enc}));
                }
            });
        });
    }
    run_grid("owned Command<1024> conversion", "classes {00,01,80,FE,FF} x all instructions x 11 P1 x every body through try_from(&Command<S>)", vec![0x00, 0x01, 0x80, 0xfe, 0xff], all.clone(), p1s.to_vec(), vec![0x00], all_shapes.clone(), true);
    // owned command buffers whose capacity is exactly / one more / one less than the data length
    {
        let caps = [0usize, 1, 63, 64, 65, 66, 67, 68, 319, 320, 321, 322];
        let mut cases: Vec<(usize, usize)> = Vec::new();
        for (si, sh) in shapes.iter().enumerate() {
            for c in caps {
                if (c as i64 - sh.data.len() as i64).abs() <= 1 {
                    cases.push((si, c));
                }
            }
        }
        let rad = [4u64, 256, 11, cases.len() as u64];
        let cr = &cases;
        sweep(ctx, "owned Command<S> with S at the data length", product(&rad), "classes {00,01,80,FF} x all instructions x 11 P1 x every body whose data length is S-1, S or S+1 for S in {0,1,63..68,319..322}", move |idx, l| {
            let mut d = [0u64; 4];
            unrank(idx, &rad, &mut d);
            let cla = [0x00u8, 0x01, 0x80, 0xff][d[0] as usize];
            let (ins, p1) = (d[1] as u8, p1s[d[2] as usize]);
            let (si, cap) = cr[d[3] as usize];
            let sh = &sr[si];
            let mut b = vec![cla, ins, p1, 0];
            b.extend_from_slice(&sh.body);
            if cla == 0 {
                l.nontrivial += 1;
            }
            let v = check_owned_cap(cap, cla, ins, p1, &sh.data, &b);
            l.bump(exp_key(&if sh.data.len() > cap { Exp::Unreachable } else { expected(cla, ins, p1, &sh.data) }));
            if !v.ok {
                l.fail(ctx, idx, v, || json!({"kind": "apdu", "owned": true, "owned_cap": cap, "apdu": hex(&b), "data_len": sh.data.len(), "encoding": sh.enc}));
            }
        });
    }
    {
        let mut items: Vec<(String, Box<dyn Fn() -> String + Sync>)> = Vec::new();
        let picks: Vec<usize> = shapes.iter().enumerate().filter(|(_, s)| matches!(s.data.len(), 0 | 64 | 65 | 66 | 320) && s.enc % 2 == 0).map(|(i, _)| i).collect();
        for (cla, ins, p1) in [(0u8, 1u8, 0u8), (0, 2, 3), (0, 2, 7), (0, 2, 9), (0, 3, 0), (0, 4, 0), (0x80, 3, 0), (1, 1, 0)] {
            for si in &picks {
                let sh = &shapes[*si];
                let mut bytes = vec![cla, ins, p1, 0];
                bytes.extend_from_slice(&sh.body);
                let data = sh.data.clone();
                items.push((format!("cla={:#x} ins={} p1={} len={} enc={}", cla, ins, p1, data.len(), sh.enc), Box::new(move || {
                    let v = check_view(cla, ins, p1, &data, &bytes);
                    format!("{}:{}", v.ok, v.observed)
                })));
            }
        }
        pair_histories(ctx, P, "conversion call pairs", "every ordered pair of header x shape samples converted back to back", &items);
    }
    if ctx.thorough() && crate::cfg_name() == "cfg-000" {
        // a decision remembered from the previous call must not be reusable: after a valid
        // authenticate, the same frame with a wrong length byte and EVERY 32-bit value in one
        // aligned word of the key handle must be rejected (one worker: the calls form a sequence)
        let mut good = fill_bytes(65 + 16, 11);
        good[64] = 16;
        let mut good_apdu = vec![0x00, 0x02, 0x03, 0x00, good.len() as u8];
        good_apdu.extend_from_slice(&good);
        let (gr, ga) = (&good, &good_apdu);
        sweep_seq(ctx, "authenticate after a valid authenticate: every value of one 32-bit word", 1u64 << 32, "valid frame, then the same frame with data[64] = 15 and data[68..72] = every 32-bit value: always IncorrectDataParameter", move |idx, l| {
            thread_local! { static BUF: std::cell::RefCell<(Vec<u8>, Vec<u8>)> = std::cell::RefCell::new((Vec::new(), Vec::new())); }
            BUF.with(|b| {
                let mut b = b.borrow_mut();
                let (data, apdu) = &mut *b;
                if data.is_empty() {
                    *data = gr.clone();
                    data[64] = 15;
                    *apdu = ga.clone();
                    apdu[5 + 64] = 15;
                }
                let w = (idx as u32).to_le_bytes();
                data[68..72].copy_from_slice(&w);
                apdu[5 + 68..5 + 72].copy_from_slice(&w);
                l.nontrivial += 1;
                let first = check_view(0, 2, 3, gr, ga);
                let second = check_view(0, 2, 3, data, apdu);
                if !first.ok || !second.ok {
                    let v = if first.ok { second } else { first };
                    let bytes = apdu.clone();
                    l.fail(ctx, idx, v, || json!({"kind": "apdu", "owned": false, "apdu": hex(&bytes), "data_len": 81, "encoding": 0, "note": "sent right after the valid frame; depends on process history"}));
                }
            });
        });
    }
    ctx.require_outcomes(&["ClassNotSupported", "Version", "Register", "Authenticate", "IncorrectDataParameter", "InstructionNotSupportedOrInvalid", "rejected by iso7816 (class 0xFF)"]);
    ctx.sample(json!({"apdu": "00 02 07 00 | 00 01 40 <320 bytes, data[64]=255> 00 00", "oracle": "Authenticate(check-only), key handle = data[65..320]"}));
    ctx.sample(json!({"apdu": "00 01 00 00 41 <65 bytes> ", "oracle": "IncorrectDataParameter"}));
    ctx.sample(json!({"apdu": "80 03 00 00", "oracle": "ClassNotSupported (class check precedes the version shortcut)"}));
}

pub fn replay(case: &Value) -> Verdict {
    let bytes = unhex(case["apdu"].as_str().unwrap());
    // recover the logical fields with an own parse of the body (mirror of `body`)
    let (cla, ins, p1) = (bytes[0], bytes[1], bytes[2]);
    let n = case["data_len"].as_u64().unwrap() as usize;
    let enc = case["encoding"].as_u64().unwrap() as u8;
    let off = 4 + match (enc, n) {
        (_, 0) => 0,
        (0, _) | (1, _) | (4, _) => 1,
        _ => 3,
    };
    let data = bytes[off..off + n].to_vec();
    if let Some(cap) = case["owned_cap"].as_u64() {
        check_owned_cap(cap as usize, cla, ins, p1, &data, &bytes)
    } else if case["owned"].as_bool().unwrap_or(false) {
        check_owned(cla, ins, p1, &data, &bytes)
    } else {
        check_view(cla, ins, p1, &data, &bytes)
    }
}
