//! C09 — CTAP1/U2F responses are encoded in the U2F raw message layout.

use crate::core::*;
use crate::engine_sr::{explore, Space};
use crate::refcbor::hex;
use crate::refmodel::fill_bytes;
use crate::subject::*;
use ctap_types::ctap1::{self, authenticate, register};
use ctap_types::Bytes;
use serde_json::{json, Value};

const P: &str = "C09";

#[derive(Clone, Debug, PartialEq, Eq, Hash)]
pub enum Resp {
    /// header byte, key-handle length, certificate length, signature length
    Register(u8, usize, usize, usize),
    /// user presence, counter, signature length
    Authenticate(u8, u32, usize),
    Version(u8),
}

thread_local! {
    /// content class of the variable parts for the case being evaluated (see `CONTENTS`)
    static CONTENT: std::cell::Cell<u8> = const { std::cell::Cell::new(0) };
}

/// content classes: 0 pattern; 1 all zero; 2 all 0xFF; 3 leading zero byte(s) then pattern;
/// 4 ASN.1-looking data whose header announces less than the part holds; 5 ASN.1-looking data whose
/// header announces exactly the rest; 6 trailing zero bytes; 7 ASN.1-looking header announcing 12 bytes
/// less than the part holds, everything behind the announced end zero; 8 an ECDSA-signature-like
/// frame 30 L 02 Lr .. 02 Ls .. whose outer length disagrees with the inner ones
pub const CONTENTS: u8 = 9;

/// precomputed filler patterns (salts 21..=26) per content class, sliced instead of regenerated
fn fill(len: usize, salt: usize) -> &'static [u8] {
    use std::sync::OnceLock;
    static F: OnceLock<Vec<Vec<Vec<u8>>>> = OnceLock::new();
    let f = F.get_or_init(|| {
        (0..CONTENTS)
            .map(|c| {
                (21..=26)
                    .map(|s| {
                        let mut v = fill_bytes(1100, s);
                        match c {
                            1 => v.iter_mut().for_each(|b| *b = 0),
                            2 => v.iter_mut().for_each(|b| *b = 0xff),
                            3 => {
                                v[0] = 0;
                                v[1] = if s % 2 == 0 { 0 } else { v[1] | 1 };
                            }
                            4 => v[..4].copy_from_slice(&[0x30, 0x82, 0x00, 0x05]),
                            _ => {}
                        }
                        v
                    })
                    .collect()
            })
            .collect()
    });
    let c = CONTENT.with(|c| c.get()) as usize;
    if c == 5 && len >= 4 {
        // header announcing exactly len - 4 bytes: built per length in a leaked cache
        static G: OnceLock<std::sync::Mutex<std::collections::HashMap<(usize, usize), &'static [u8]>>> = OnceLock::new();
        let g = G.get_or_init(Default::default);
        let mut g = g.lock().unwrap();
        return g.entry((len, salt)).or_insert_with(|| {
            let mut v = fill_bytes(len, salt);
            v[..4].copy_from_slice(&[0x30, 0x82, ((len - 4) >> 8) as u8, (len - 4) as u8]);
            Box::leak(v.into_boxed_slice())
        });
    }
    if c == 6 && len >= 2 {
        static H: OnceLock<std::sync::Mutex<std::collections::HashMap<(usize, usize), &'static [u8]>>> = OnceLock::new();
        let h = H.get_or_init(Default::default);
        let mut h = h.lock().unwrap();
        return h.entry((len, salt)).or_insert_with(|| {
            let mut v = fill_bytes(len, salt);
            let n = v.len();
            v[n - 1] = 0;
            v[n - 2] = 0;
            Box::leak(v.into_boxed_slice())
        });
    }
    if c == 8 && len >= 12 {
        static S: OnceLock<std::sync::Mutex<std::collections::HashMap<(usize, usize), &'static [u8]>>> = OnceLock::new();
        let k = S.get_or_init(Default::default);
        let mut k = k.lock().unwrap();
        return k.entry((len, salt)).or_insert_with(|| {
            let mut v = fill_bytes(len, salt);
            let half = ((len - 6) / 2).min(33) as u8;
            v[0] = 0x30;
            v[1] = (len.min(120) as u8).wrapping_sub(5); // not 4 + Lr + Ls
            v[2] = 0x02;
            v[3] = half;
            let p = 4 + half as usize;
            v[p] = 0x02;
            v[p + 1] = half;
            Box::leak(v.into_boxed_slice())
        });
    }
    if c == 7 && len >= 20 {
        static K: OnceLock<std::sync::Mutex<std::collections::HashMap<(usize, usize), &'static [u8]>>> = OnceLock::new();
        let k = K.get_or_init(Default::default);
        let mut k = k.lock().unwrap();
        return k.entry((len, salt)).or_insert_with(|| {
            let mut v = fill_bytes(len, salt);
            let announced = len - 4 - 12;
            v[..4].copy_from_slice(&[0x30, 0x82, (announced >> 8) as u8, announced as u8]);
            for b in v[4 + announced..].iter_mut() {
                *b = 0;
            }
            Box::leak(v.into_boxed_slice())
        });
    }
    &f[c.min(4)][salt - 21][..len]
}

fn b<const N: usize>(len: usize, salt: usize) -> Bytes<N> {
    Bytes::from_slice(fill(len, salt)).expect("within declared capacity")
}

thread_local! {
    /// lengths of the two public-key coordinates handed to the constructor (32 / 32 unless a
    /// coordinate-length case is being evaluated)
    static COORD: std::cell::Cell<(usize, usize)> = const { std::cell::Cell::new((32, 32)) };
}

fn xy() -> cosey::EcdhEsHkdf256PublicKey {
    let (xl, yl) = COORD.with(|c| c.get());
    cosey::EcdhEsHkdf256PublicKey { x: b(xl, 21), y: b(yl, 22) }
}

pub fn build(r: &Resp) -> ctap1::Response {
    match r {
        Resp::Register(h, kh, cert, sig) => ctap1::Response::Register(register::Response::new(*h, &xy(), b(*kh, 23), b(*sig, 25), b(*cert, 24))),
        Resp::Authenticate(up, count, sig) => ctap1::Response::Authenticate(authenticate::Response { user_presence: *up, count: *count, signature: b(*sig, 26) }),
        Resp::Version(k) => {
            let mut v = *b"U2F_V2";
            v[5] = v[5].wrapping_add(*k);
            ctap1::Response::Version(v)
        }
    }
}

/// U2F raw message layout, written from the specification
pub fn layout(r: &Resp) -> Vec<u8> {
    let mut out = Vec::with_capacity(1500);
    match r {
        Resp::Register(h, kh, cert, sig) => {
            out.push(*h);
            out.push(0x04);
            let (xl, yl) = COORD.with(|c| c.get());
            out.extend_from_slice(fill(xl, 21));
            out.extend_from_slice(fill(yl, 22));
            out.push(*kh as u8);
            out.extend_from_slice(fill(*kh, 23));
            out.extend_from_slice(fill(*cert, 24));
            out.extend_from_slice(fill(*sig, 25));
        }
        Resp::Authenticate(up, count, sig) => {
            out.push(*up);
            out.extend_from_slice(&count.to_be_bytes());
            out.extend_from_slice(fill(*sig, 26));
        }
        Resp::Version(k) => {
            out.extend_from_slice(b"U2F_V");
            out.push(b'2'.wrapping_add(*k));
        }
    }
    out
}

/// serialize into a buffer of capacity S holding `prefix`; returns (Ok?, buffer afterwards)
fn ser<const S: usize>(r: &ctap1::Response, prefix: &[u8]) -> Result<(bool, Vec<u8>), String> {
    guard(|| {
        let mut buf: iso7816::Data<S> = iso7816::Data::new();
        buf.extend_from_slice(prefix).expect("prefix fits");
        let ok = r.serialize(&mut buf).is_ok();
        // a copy made by `clone` and one made by `clone_from` over a different value of the same
        // kind must serialise exactly like the original
        let mut twin = match r {
            ctap1::Response::Register(_) => ctap1::Response::Register(register::Response::new(0, &cosey::EcdhEsHkdf256PublicKey { x: Bytes::new(), y: Bytes::new() }, Bytes::new(), Bytes::new(), Bytes::new())),
            ctap1::Response::Authenticate(_) => ctap1::Response::Authenticate(authenticate::Response { user_presence: 0xff, count: 0, signature: Bytes::new() }),
            ctap1::Response::Version(_) => ctap1::Response::Version([0; 6]),
        };
        match (&mut twin, r) {
            (ctap1::Response::Register(a), ctap1::Response::Register(b)) => a.clone_from(b),
            (ctap1::Response::Authenticate(a), ctap1::Response::Authenticate(b)) => a.clone_from(b),
            (a, b) => a.clone_from(b),
        }
        for copy in [twin, r.clone()] {
            let mut buf2: iso7816::Data<S> = iso7816::Data::new();
            buf2.extend_from_slice(prefix).expect("prefix fits");
            let ok2 = copy.serialize(&mut buf2).is_ok();
            if ok2 != ok || buf2[..] != buf[..] {
                panic!("a copy of the response serialises differently from the original");
            }
        }
        (ok, buf.to_vec())
    })
}

fn ser_cap(cap: usize, r: &ctap1::Response, prefix: &[u8]) -> Result<(bool, Vec<u8>), String> {
    match cap {
        0 => ser::<0>(r, prefix),
        1 => ser::<1>(r, prefix),
        5 => ser::<5>(r, prefix),
        6 => ser::<6>(r, prefix),
        7 => ser::<7>(r, prefix),
        66 => ser::<66>(r, prefix),
        67 => ser::<67>(r, prefix),
        68 => ser::<68>(r, prefix),
        128 => ser::<128>(r, prefix),
        256 => ser::<256>(r, prefix),
        1024 => ser::<1024>(r, prefix),
        2048 => ser::<2048>(r, prefix),
        65536 => ser::<65536>(r, prefix),
        66000 => ser::<66000>(r, prefix),
        _ => machinery_panic("capacity not instantiated"),
    }
}

pub const CAPS: [usize; 14] = [0, 1, 5, 6, 7, 66, 67, 68, 128, 256, 1024, 2048, 65536, 66000];

pub fn check_content(r: &Resp, cap: usize, prefix_len: usize, content: u8) -> Verdict {
    CONTENT.with(|c| c.set(content));
    let v = check(r, cap, prefix_len);
    CONTENT.with(|c| c.set(0));
    v
}

pub fn check(r: &Resp, cap: usize, prefix_len: usize) -> Verdict {
    let prefix: Vec<u8> = (0..prefix_len).map(|i| 0xee ^ (i as u8)).collect();
    let want = layout(r);
    let fits = prefix_len + want.len() <= cap;
    let kind = match r {
        Resp::Register(..) => "register",
        Resp::Authenticate(..) => "authenticate",
        Resp::Version(_) => "version",
    };
    match ser_cap(cap, &build(r), &prefix) {
        Err(p) => Verdict::fail(format!("{}|{}|panic", P, kind), "no panic", p),
        Ok((ok, buf)) => {
            if ok != fits {
                return Verdict::fail(format!("{}|{}|{}", P, kind, if fits { "failure-although-it-fits" } else { "success-although-it-does-not-fit" }), format!("Ok iff {} + {} <= {}", prefix_len, want.len(), cap), format!("ok={} len={}", ok, buf.len()));
            }
            if buf.len() < prefix_len || buf[..prefix_len] != prefix[..] {
                return Verdict::fail(format!("{}|{}|prefix-disturbed", P, kind), hex(&prefix), hex(&buf));
            }
            if ok {
                if buf.len() != prefix_len + want.len() {
                    return Verdict::fail(format!("{}|{}|appended-length", P, kind), format!("{}", want.len()), format!("{}", buf.len() - prefix_len));
                }
                if buf[prefix_len..] != want[..] {
                    let i = buf[prefix_len..].iter().zip(&want).position(|(a, b)| a != b).unwrap_or(0);
                    return Verdict::fail(format!("{}|{}|layout-differs-at-part-{}", P, kind, part_of(r, i)), hex(&want), hex(&buf[prefix_len..]));
                }
            }
            Verdict::pass()
        }
    }
}

fn part_of(r: &Resp, i: usize) -> &'static str {
    match r {
        Resp::Register(_, kh, cert, _) => {
            if i == 0 {
                "reserved"
            } else if i < 66 {
                "public-key"
            } else if i == 66 {
                "key-handle-length"
            } else if i < 67 + kh {
                "key-handle"
            } else if i < 67 + kh + cert {
                "certificate"
            } else {
                "signature"
            }
        }
        Resp::Authenticate(..) => {
            if i == 0 {
                "presence"
            } else if i < 5 {
                "counter"
            } else {
                "signature"
            }
        }
        Resp::Version(_) => "version",
    }
}

fn rjson(r: &Resp, cap: usize, prefix: usize) -> Value {
    json!({"kind": "u2f-response", "response": format!("{:?}", r), "capacity": cap, "prefix": prefix,
           "fields": match r { Resp::Register(a, b, c, d) => json!([0, a, b, c, d]), Resp::Authenticate(a, b, c) => json!([1, a, b, c]), Resp::Version(k) => json!([2, k]) }})
}

/// histories of serialisations appended into one buffer
struct Histories {
    alphabet: Vec<Resp>,
    max: usize,
}

impl Space for Histories {
    // state = sequence of responses serialised so far (the buffer is a function of it)
    type S = Vec<u8>;
    type A = u8;
    fn name(&self) -> String {
        format!("append histories <= {} into one 128-byte buffer", self.max)
    }
    fn init(&self) -> Vec<Vec<u8>> {
        vec![vec![]]
    }
    fn actions(&self, s: &Vec<u8>, out: &mut Vec<u8>) {
        if s.len() < self.max {
            out.extend(0..self.alphabet.len() as u8);
        }
    }
    fn next(&self, s: &Vec<u8>, a: &u8) -> Option<Vec<u8>> {
        let mut n = s.clone();
        n.push(*a);
        Some(n)
    }
    fn check(&self, s: &Vec<u8>) -> Verdict {
        // replay the history on the real buffer and on the reference
        let r = guard(|| {
            let mut buf: iso7816::Data<128> = iso7816::Data::new();
            let mut model: Vec<u8> = Vec::new();
            for (step, a) in s.iter().enumerate() {
                let resp = &self.alphabet[*a as usize];
                let enc = layout(resp);
                let fits = model.len() + enc.len() <= 128;
                let before = buf.to_vec();
                let ok = build(resp).serialize(&mut buf).is_ok();
                if ok != fits {
                    return Some(format!("step {}: ok={} but fits={}", step, ok, fits));
                }
                if fits {
                    model.extend(enc);
                    if buf[..] != model[..] {
                        return Some(format!("step {}: buffer {} != {}", step, hex(&buf), hex(&model)));
                    }
                } else {
                    if buf.len() < before.len() || buf[..before.len()] != before[..] {
                        return Some(format!("step {}: failed call disturbed earlier content", step));
                    }
                    // later steps continue from what the real buffer holds; the reference follows it
                    model = buf.to_vec();
                }
            }
            None
        });
        match r {
            Ok(None) => Verdict::pass(),
            Ok(Some(m)) => Verdict::fail(format!("{}|history", P), "buffer = concatenation of the fitting encodings; failed calls leave earlier content in place", m),
            Err(p) => Verdict::fail(format!("{}|history|panic", P), "no panic", p),
        }
    }
    fn case(&self, s: &Vec<u8>) -> Value {
        json!({"kind": "u2f-history", "history": s})
    }
    fn nontrivial(&self, s: &Vec<u8>) -> bool {
        s.len() > 1
    }
}

fn history_alphabet() -> Vec<Resp> {
    vec![Resp::Version(0), Resp::Authenticate(1, 0x01020304, 0), Resp::Authenticate(0, 1, 40), Resp::Register(5, 0, 0, 0), Resp::Register(5, 10, 20, 8), Resp::Authenticate(1, 2, 72)]
}

pub fn run(ctx: &'static Ctx) {
    ctx.rule("state = (response, buffer capacity, bytes already in the buffer) or a history of serialisations; each is serialised by the real code and compared with the U2F raw message layout; non-trivial = variable-length parts are non-empty");
    // part lengths: full product in the thorough tier, axis-complete in the quick tier
    let mut grid: Vec<Resp> = Vec::new();
    {
        for kh in 0..=255usize {
            for (c, s) in [(0usize, 0usize), (1024, 72), (0, 72), (1024, 0), (300, 70)] {
                grid.push(Resp::Register(5, kh, c, s));
            }
        }
        for cert in 0..=1024usize {
            for (k, s) in [(0usize, 0usize), (255, 72), (64, 71)] {
                grid.push(Resp::Register(5, k, cert, s));
            }
        }
        for sig in 0..=72usize {
            for (k, c) in [(0usize, 0usize), (255, 1024), (64, 300)] {
                grid.push(Resp::Register(5, k, c, sig));
            }
        }
    }
    for h in 0..=255u8 {
        grid.push(Resp::Register(h, 3, 4, 5));
        grid.push(Resp::Authenticate(h, 7, 6));
    }
    for count in [0u32, 1, 0xff, 0x100, 0xffff, 0x1_0000, 0xff_ffff, 0x100_0000, 0x01020304, 0x7fff_ffff, 0x8000_0000, 0xffff_ffff] {
        for sig in [0usize, 1, 70, 71, 72] {
            grid.push(Resp::Authenticate(1, count, sig));
        }
    }
    for k in 0..4 {
        grid.push(Resp::Version(k));
    }
    let gr = &grid;
    sweep(ctx, "layouts into an empty 2048-byte buffer", grid.len() as u64, "key-handle 0..=255, certificate 0..=1024, signature 0..=72 (each axis complete), all header / presence bytes, counters at the big-endian boundaries, version bytes", move |idx, l| {
        let r = &gr[idx as usize];
        l.nontrivial += 1;
        let v = check(r, 2048, 0);
        l.bump("fits");
        if !v.ok {
            l.fail(ctx, idx, v, || rjson(r, 2048, 0));
        }
    });
    {
        // the full product is cheap enough for both tiers
        let rad = [256u64, 1025, 73];
        sweep(ctx, "full product of part lengths", product(&rad), "key-handle 0..=255 x certificate 0..=1024 x signature 0..=72", move |idx, l| {
            let mut d = [0u64; 3];
            unrank(idx, &rad, &mut d);
            let r = Resp::Register(5, d[0] as usize, d[1] as usize, d[2] as usize);
            l.nontrivial += 1;
            let v = check(&r, 2048, 0);
            l.bump("fits");
            if !v.ok {
                l.fail(ctx, idx, v, || rjson(&r, 2048, 0));
            }
        });
    }
    // coordinates as the constructor receives them: every pair of lengths, every content class
    {
        let lens = [0usize, 1, 16, 31, 32];
        let shapes = [(0usize, 0usize, 0usize), (1, 1, 1), (64, 300, 70), (255, 1024, 72)];
        let total = (lens.len() * lens.len() * shapes.len()) as u64 * CONTENTS as u64;
        sweep(ctx, "public-key coordinate lengths", total, "x and y of 0, 1, 16, 31, 32 bytes each x 4 part-length shapes x every content class: 0x04 || x || y verbatim", move |idx, l| {
            let mut r = idx as usize;
            let content = (r % CONTENTS as usize) as u8;
            r /= CONTENTS as usize;
            let (kh, cert, sig) = shapes[r % shapes.len()];
            r /= shapes.len();
            let (xl, yl) = (lens[r % lens.len()], lens[r / lens.len()]);
            COORD.with(|c| c.set((xl, yl)));
            let resp = Resp::Register(5, kh, cert, sig);
            l.nontrivial += 1;
            l.bump("coordinate lengths");
            let v = check_content(&resp, 2048, 0, content);
            COORD.with(|c| c.set((32, 32)));
            if !v.ok {
                l.fail(ctx, idx, v, || {
                    let mut j = rjson(&resp, 2048, 0);
                    j["content"] = json!(content);
                    j["coordinates"] = json!([xl, yl]);
                    j
                });
            }
        });
    }
    // no memory between constructor calls: every ordered pair of (x, y) choices over two values each
    {
        let xs = [fill_bytes(32, 201), fill_bytes(32, 202)];
        let ys = [fill_bytes(32, 203), fill_bytes(32, 204)];
        let one = |xi: usize, yi: usize| -> Result<Vec<u8>, String> {
            guard(|| {
                let key = cosey::EcdhEsHkdf256PublicKey { x: Bytes::from_slice(&xs[xi]).unwrap(), y: Bytes::from_slice(&ys[yi]).unwrap() };
                let r = ctap1::Response::Register(register::Response::new(5, &key, Bytes::new(), Bytes::new(), Bytes::new()));
                let mut buf: iso7816::Data<256> = iso7816::Data::new();
                r.serialize(&mut buf).expect("fits");
                buf.to_vec()
            })
        };
        sweep_seq(ctx, "constructor call pairs over two x and two y coordinates", 16, "Response::new(x_a, y_b) then Response::new(x_c, y_d) for every (a, b, c, d): the second response carries exactly its own key", |idx, l| {
            let (a, b, c, d) = ((idx >> 3 & 1) as usize, (idx >> 2 & 1) as usize, (idx >> 1 & 1) as usize, (idx & 1) as usize);
            l.nontrivial += 1;
            l.bump("constructor pair");
            let _ = one(a, b);
            let got = one(c, d);
            let mut want = vec![5u8, 4];
            want.extend_from_slice(&xs[c]);
            want.extend_from_slice(&ys[d]);
            want.push(0);
            if got.as_ref().ok() != Some(&want) {
                let v = Verdict::fail(format!("{}|register|result-depends-on-previous-call", P), hex(&want), format!("{:?} after a response built from x{} y{}", got.map(|g| hex(&g)), a, b));
                l.fail(ctx, idx, v, || json!({"kind": "constructor-pair", "first": [a, b], "second": [c, d], "note": "re-run the check to replay: the outcome depends on process history"}));
            }
        });
    }
    // content classes of the variable parts (coordinates, key handle, certificate, signature)
    {
        let mut cases: Vec<(Resp, u8)> = Vec::new();
        for content in 1..CONTENTS {
            for kh in [0usize, 1, 4, 5, 32, 64, 255] {
                for cert in [0usize, 3, 4, 5, 9, 10, 300, 1024] {
                    for sig in [0usize, 4, 8, 70, 72] {
                        cases.push((Resp::Register(5, kh, cert, sig), content));
                    }
                }
            }
            for sig in 0..=72usize {
                cases.push((Resp::Authenticate(1, 0x01020304, sig), content));
            }
        }
        let cr = &cases;
        sweep(ctx, "content classes of the variable parts", cases.len() as u64, "all-zero, all-FF, leading-zero coordinates and parts, ASN.1-looking parts whose header announces less than / exactly what the part holds, trailing zeros x key-handle / certificate / signature lengths", move |idx, l| {
            let (r, content) = &cr[idx as usize];
            l.nontrivial += 1;
            let v = check_content(r, 2048, 0, *content);
            l.bump("fits");
            if !v.ok {
                l.fail(ctx, idx, v, || {
                    let mut j = rjson(r, 2048, 0);
                    j["content"] = json!(content);
                    j
                });
            }
        });
    }
    // remaining space: every value from 0 to length + 2, in every instantiated capacity
    let probes = vec![Resp::Version(0), Resp::Authenticate(1, 0x01020304, 0), Resp::Authenticate(1, 5, 72), Resp::Register(5, 0, 0, 0), Resp::Register(5, 1, 1, 1), Resp::Register(5, 64, 300, 71), Resp::Register(5, 255, 1024, 72)];
    let mut cases: Vec<(usize, usize, usize)> = Vec::new(); // (probe, cap, prefix)
    for (pi, p) in probes.iter().enumerate() {
        let len = layout(p).len();
        for cap in CAPS {
            // remaining = cap - prefix ranges over 0..=len+2 where possible
            for remaining in 0..=(len + 2).min(cap) {
                cases.push((pi, cap, cap - remaining));
            }
            if cap > len + 2 {
                cases.push((pi, cap, 0));
            }
        }
    }
    let (cr, pr) = (&cases, &probes);
    sweep(ctx, "remaining buffer space 0..=length+2 in 14 capacities", cases.len() as u64, "7 responses x capacities {0,1,5,6,7,66,67,68,128,256,1024,2048,65536,66000} x every amount of remaining space around the response length (buffer pre-filled with a sentinel pattern)", move |idx, l| {
        let (pi, cap, prefix) = cr[idx as usize];
        let r = &pr[pi];
        l.nontrivial += 1;
        let fits = prefix + layout(r).len() <= cap;
        l.bump(if fits { "fits" } else { "does not fit" });
        let v = check(r, cap, prefix);
        if !v.ok {
            l.fail(ctx, idx, v, || rjson(r, cap, prefix));
        }
    });
    // histories
    let alpha = history_alphabet();
    let max = 3;
    let n = alpha.len() as u64;
    let expect: u64 = (0..=max as u32).map(|k| n.pow(k)).sum();
    explore(ctx, Histories { alphabet: alpha, max }, Some(expect), "every sequence of up to 3 serialisations of 6 responses appended into one buffer");
    ctx.require_outcomes(&["fits", "does not fit"]);
    ctx.sample(rjson(&Resp::Register(5, 64, 300, 71), 1024, 517));
    ctx.sample(json!({"history": ["Version", "Authenticate(sig 72)", "Register(10,20,8)"], "capacity": 128}));
}

pub fn replay(case: &Value) -> Verdict {
    match case["kind"].as_str() {
        Some("u2f-history") => {
            let h: Vec<u8> = case["history"].as_array().unwrap().iter().map(|x| x.as_u64().unwrap() as u8).collect();
            Histories { alphabet: history_alphabet(), max: 3 }.check(&h)
        }
        Some("constructor-pair") => Verdict::pass(), // history-dependent: only a fresh run of the check reproduces it
        _ => {
            let f: Vec<u64> = case["fields"].as_array().unwrap().iter().map(|x| x.as_u64().unwrap()).collect();
            let r = match f[0] {
                0 => Resp::Register(f[1] as u8, f[2] as usize, f[3] as usize, f[4] as usize),
                1 => Resp::Authenticate(f[1] as u8, f[2] as u32, f[3] as usize),
                _ => Resp::Version(f[1] as u8),
            };
            if let Some(c) = case["coordinates"].as_array() {
                COORD.with(|x| x.set((c[0].as_u64().unwrap() as usize, c[1].as_u64().unwrap() as usize)));
            }
            let v = check_content(&r, case["capacity"].as_u64().unwrap() as usize, case["prefix"].as_u64().unwrap() as usize, case["content"].as_u64().unwrap_or(0) as u8);
            COORD.with(|x| x.set((32, 32)));
            v
        }
    }
}
