//! C10 — each request reaches exactly the authenticator method for its command.

use crate::core::*;
use crate::engine_sr::{explore, Space};
use crate::refcbor::encode;
use crate::refmodel::{Plan, Side};
use crate::spec::*;
use ctap_types::ctap1;
use ctap_types::ctap2::{self, client_pin, credential_management, get_assertion, get_info, large_blobs, make_credential};
use serde_json::{json, Value};
use std::sync::Arc;

const P: &str = "C10";

#[derive(Clone, Debug, PartialEq)]
pub enum Call {
    GetInfo,
    MakeCredential { ptr: usize, arg: String },
    GetAssertion { ptr: usize, arg: String },
    GetNextAssertion,
    Reset,
    ClientPin { ptr: usize, arg: String },
    CredentialManagement { ptr: usize, arg: String },
    Selection,
    Vendor(u8),
    LargeBlobs { ptr: usize, arg: String },
    Register { ptr: usize, arg: String },
    Authenticate { ptr: usize, arg: String },
}

impl Call {
    fn handler(&self) -> &'static str {
        match self {
            Call::GetInfo => "get_info",
            Call::MakeCredential { .. } => "make_credential",
            Call::GetAssertion { .. } => "get_assertion",
            Call::GetNextAssertion => "get_next_assertion",
            Call::Reset => "reset",
            Call::ClientPin { .. } => "client_pin",
            Call::CredentialManagement { .. } => "credential_management",
            Call::Selection => "selection",
            Call::Vendor(_) => "vendor",
            Call::LargeBlobs { .. } => "large_blobs",
            Call::Register { .. } => "register",
            Call::Authenticate { .. } => "authenticate",
        }
    }
}

/// behaviours 1..=4 are used in histories; the single-dispatch space uses every named status
const E2: [ctap2::Error; 55] = {
    use ctap2::Error::*;
    [
        InvalidParameter, PinInvalid, Other, NoCredentials, Success, InvalidCommand, InvalidLength, InvalidSeq, Timeout, ChannelBusy, LockRequired, InvalidChannel, CborUnexpectedType,
        InvalidCbor, MissingParameter, LimitExceeded, UnsupportedExtension, FingerprintDatabaseFull, LargeBlobStorageFull, CredentialExcluded, Processing, InvalidCredential,
        UserActionPending, OperationPending, NoOperations, UnsupportedAlgorithm, OperationDenied, KeyStoreFull, NotBusy, NoOperationPending, UnsupportedOption, InvalidOption,
        KeepaliveCancel, UserActionTimeout, NotAllowed, PinBlocked, PinAuthInvalid, PinAuthBlocked, PinNotSet, PinRequired, PinPolicyViolation, PinTokenExpired, RequestTooLarge,
        ActionTimeout, UpRequired, UvBlocked, IntegrityFailure, InvalidSubcommand, UvInvalid, UnauthorizedPermission, SpecLast, ExtensionFirst, ExtensionLast, VendorFirst, VendorLast,
    ]
};
const E1: [ctap1::Error; 8] = [
    ctap1::Error::ConditionsOfUseNotSatisfied,
    ctap1::Error::IncorrectDataParameter,
    ctap1::Error::NotEnoughMemory,
    ctap1::Error::KeyReferenceNotFound,
    ctap1::Error::Success,
    ctap1::Error::ClassNotSupported,
    ctap1::Error::InstructionNotSupportedOrInvalid,
    ctap1::Error::WrongLength,
];

/// every status a CTAP1 handler can return: the eight above first (the history spaces use the
/// first four), then every value the status type has for any of the 65 536 status words, then the
/// parametrised variants with every parameter byte (also outside their documented ranges)
fn e1() -> &'static [ctap1::Error] {
    static ALL: std::sync::OnceLock<Vec<ctap1::Error>> = std::sync::OnceLock::new();
    ALL.get_or_init(|| {
        let mut v: Vec<ctap1::Error> = E1.to_vec();
        let mut seen: std::collections::BTreeSet<String> = v.iter().map(|e| format!("{:?}", e)).collect();
        let mut add = |e: ctap1::Error, v: &mut Vec<ctap1::Error>| {
            if seen.insert(format!("{:?}", e)) {
                v.push(e);
            }
        };
        for w in 0..=0xffffu16 {
            let e = ctap1::Error::from(w);
            // unassigned words all map to one catch-all variant carrying the word: keep a few
            if format!("{:?}", e).contains("Unknown") && !matches!(w, 0x0000 | 0x6f01 | 0x9001 | 0xffff) {
                continue;
            }
            add(e, &mut v);
        }
        for n in 0..=255u8 {
            add(ctap1::Error::MoreAvailable(n), &mut v);
            add(ctap1::Error::WarningTriggering(n), &mut v);
            add(ctap1::Error::RemainingRetries(n), &mut v);
            add(ctap1::Error::ErrorTriggering(n), &mut v);
            add(ctap1::Error::WrongLeField(n), &mut v);
        }
        v
    })
}

/// recording mock; `fail`: None = handlers succeed with their canned value, Some(i) = error i
pub struct Mock {
    pub log: Vec<Call>,
    pub fail: Option<usize>,
}

fn bytes<const N: usize>(b: u8, n: usize) -> ctap_types::Bytes<N> {
    ctap_types::Bytes::from_slice(&vec![b; n]).unwrap()
}

pub fn canned_info() -> get_info::Response {
    let mut v = ctap_types::Vec::new();
    v.push(get_info::Version::U2fV2).unwrap();
    let mut r = get_info::ResponseBuilder { versions: v, aaguid: bytes(0xa1, 16) }.build();
    r.max_msg_size = Some(0x1234);
    r
}
pub fn canned_mc() -> make_credential::Response {
    let mut r = make_credential::ResponseBuilder { fmt: ctap2::AttestationStatementFormat::Packed, auth_data: bytes(0x11, 37) }.build();
    r.ep_att = Some(true);
    r.large_blob_key = Some(ctap_types::ByteArray::new([0x12; 32]));
    r.att_stmt = Some(ctap2::AttestationStatement::None(ctap2::NoneAttestationStatement {}));
    r
}
pub fn canned_ga(tag: u8) -> get_assertion::Response {
    // every optional member set: a dispatcher that edits the handler's response is visible
    let cred = ctap_types::webauthn::PublicKeyCredentialDescriptor { id: bytes(tag, 16), key_type: ctap_types::String::from("public-key") };
    let mut r = get_assertion::ResponseBuilder { credential: cred, auth_data: bytes(tag, 37), signature: bytes(tag, 70) }.build();
    let mut user = ctap_types::webauthn::PublicKeyCredentialUserEntity::from(bytes(tag, 8));
    user.name = Some(ctap_types::String::from("user"));
    user.display_name = Some(ctap_types::String::from("User"));
    user.icon = Some(ctap_types::String::from("icon"));
    r.user = Some(user);
    // the first assertion announces two credentials (a GetAssertion + GetNextAssertion sequence)
    r.number_of_credentials = Some(if tag == 0x22 { 2 } else { tag as u32 });
    r.user_selected = Some(true);
    r.large_blob_key = Some(ctap_types::ByteArray::new([tag; 32]));
    r.ep_att = Some(true);
    r.att_stmt = Some(ctap2::AttestationStatement::Packed(ctap2::PackedAttestationStatement { alg: -7, sig: bytes(tag, 70), x5c: None }));
    r.unsigned_extension_outputs = Some(cbor_smol::cbor_deserialize(&[0xa0]).unwrap());
    r
}
pub fn canned_cp() -> client_pin::Response {
    let mut r = client_pin::Response::default();
    r.retries = Some(6);
    r.uv_retries = Some(5);
    r.power_cycle_state = Some(true);
    r.pin_token = Some(bytes(0x13, 32));
    r.key_agreement = Some(cosey::EcdhEsHkdf256PublicKey { x: bytes(0x14, 32), y: bytes(0x15, 32) });
    r
}
pub fn canned_cm() -> credential_management::Response {
    let mut r = credential_management::Response::default();
    r.total_rps = Some(7);
    r.existing_resident_credentials_count = Some(1);
    r.max_possible_remaining_residential_credentials_count = Some(2);
    r.total_credentials = Some(3);
    r.rp_id_hash = Some(ctap_types::ByteArray::new([0x16; 32]));
    r.large_blob_key = Some(ctap_types::ByteArray::new([0x17; 32]));
    r.cred_protect = Some(credential_management::CredentialProtectionPolicy::Required);
    r
}
pub fn canned_lb() -> large_blobs::Response {
    let mut r = large_blobs::Response::default();
    r.config = Some(ctap_types::Bytes::new());
    r
}
pub fn canned_reg() -> ctap1::register::Response {
    ctap1::register::Response { header_byte: 5, public_key: bytes(0x41, 65), key_handle: bytes(0x42, 9), attestation_certificate: bytes(0x43, 11), signature: bytes(0x44, 13) }
}
pub fn canned_auth() -> ctap1::authenticate::Response {
    ctap1::authenticate::Response { user_presence: 1, count: 0x01020304, signature: bytes(0x45, 15) }
}

macro_rules! ret2 {
    ($self:ident, $v:expr) => {
        match $self.fail {
            None => Ok($v),
            Some(i) => Err(E2[i]),
        }
    };
}

macro_rules! impl_ctap2_mock {
    ($t:ty, $($lb:tt)*) => {
        impl ctap2::Authenticator for $t {
            fn get_info(&mut self) -> get_info::Response {
                self.log.push(Call::GetInfo);
                canned_info()
            }
            fn make_credential(&mut self, request: &make_credential::Request) -> ctap2::Result<make_credential::Response> {
                self.log.push(Call::MakeCredential { ptr: request as *const _ as usize, arg: format!("{:?}", request) });
                ret2!(self, canned_mc())
            }
            fn get_assertion(&mut self, request: &get_assertion::Request) -> ctap2::Result<get_assertion::Response> {
                self.log.push(Call::GetAssertion { ptr: request as *const _ as usize, arg: format!("{:?}", request) });
                ret2!(self, canned_ga(0x22))
            }
            fn get_next_assertion(&mut self) -> ctap2::Result<get_assertion::Response> {
                self.log.push(Call::GetNextAssertion);
                ret2!(self, canned_ga(0x33))
            }
            fn reset(&mut self) -> ctap2::Result<()> {
                self.log.push(Call::Reset);
                ret2!(self, ())
            }
            fn client_pin(&mut self, request: &client_pin::Request) -> ctap2::Result<client_pin::Response> {
                self.log.push(Call::ClientPin { ptr: request as *const _ as usize, arg: format!("{:?}", request) });
                ret2!(self, canned_cp())
            }
            fn credential_management(&mut self, request: &credential_management::Request) -> ctap2::Result<credential_management::Response> {
                self.log.push(Call::CredentialManagement { ptr: request as *const _ as usize, arg: format!("{:?}", request) });
                ret2!(self, canned_cm())
            }
            fn selection(&mut self) -> ctap2::Result<()> {
                self.log.push(Call::Selection);
                ret2!(self, ())
            }
            fn vendor(&mut self, op: ctap2::VendorOperation) -> ctap2::Result<()> {
                self.log.push(Call::Vendor(op.into()));
                ret2!(self, ())
            }
            $($lb)*
        }
    };
}

impl_ctap2_mock!(Mock,
    fn large_blobs(&mut self, request: &large_blobs::Request) -> ctap2::Result<large_blobs::Response> {
        self.log.push(Call::LargeBlobs { ptr: request as *const _ as usize, arg: format!("{:?}", request) });
        ret2!(self, canned_lb())
    }
);

/// a second authenticator that does not implement large blobs
pub struct MockNoLb {
    pub log: Vec<Call>,
    pub fail: Option<usize>,
}
impl_ctap2_mock!(MockNoLb,);

impl ctap1::Authenticator for Mock {
    fn register(&mut self, request: &ctap1::register::Request<'_>) -> ctap1::Result<ctap1::register::Response> {
        self.log.push(Call::Register { ptr: request as *const _ as usize, arg: format!("{:?}", request) });
        match self.fail {
            None => Ok(canned_reg()),
            Some(i) => Err(e1()[i]),
        }
    }
    fn authenticate(&mut self, request: &ctap1::authenticate::Request<'_>) -> ctap1::Result<ctap1::authenticate::Response> {
        self.log.push(Call::Authenticate { ptr: request as *const _ as usize, arg: format!("{:?}", request) });
        match self.fail {
            None => Ok(canned_auth()),
            Some(i) => Err(e1()[i]),
        }
    }
    fn version() -> [u8; 6] {
        *b"U2F_V7"
    }
}

/// the request alphabet; CTAP2 requests are obtained by decoding reference-encoded bytes
pub struct Alphabet {
    pub ctap2: Vec<(String, ctap2::Request<'static>)>,
    pub ctap1: Vec<(String, ctap1::Request<'static>)>,
}

fn leak(v: Vec<u8>) -> &'static [u8] {
    Box::leak(v.into_boxed_slice())
}

pub fn alphabet() -> Alphabet {
    let mut c2 = Vec::new();
    for b in [0x01u8, 0x02, 0x06, 0x0a, 0x0c] {
        let plan = Plan::new(&request_schema(command_of(b).unwrap()).unwrap(), Side::Request);
        for (label, mask) in [("minimal", 0u64), ("full", plan.full_mask())] {
            let mut msg = vec![b];
            msg.extend(encode(&plan.build(mask, &[])));
            let msg = leak(msg);
            let r = ctap2::Request::deserialize(msg).unwrap_or_else(|e| machinery_panic(&format!("C10: anchor for 0x{:02x} does not decode: {:?}", b, e)));
            c2.push((format!("0x{:02x}:{}", b, label), r));
        }
    }
    {
        // LargeBlobs with fragment sizes / offsets beyond the feature-dependent fragment constant
        use crate::refcbor::V;
        let big = V::M(vec![(V::U(2), V::B(vec![0x77; 3100])), (V::U(3), V::U(0)), (V::U(4), V::U(3100))]);
        let mut msg = vec![0x0c];
        msg.extend(encode(&big));
        c2.push(("0x0c:set 3100 bytes".to_string(), ctap2::Request::deserialize(leak(msg)).unwrap()));
        let get = V::M(vec![(V::U(1), V::U(70000)), (V::U(3), V::U(u32::MAX as u64))]);
        let mut msg = vec![0x0c];
        msg.extend(encode(&get));
        c2.push(("0x0c:get 70000".to_string(), ctap2::Request::deserialize(leak(msg)).unwrap()));
    }
    for b in [0x04u8, 0x07, 0x08, 0x0b] {
        c2.push((format!("0x{:02x}", b), ctap2::Request::deserialize(leak(vec![b])).unwrap()));
    }
    for b in 0x40..=0x7fu8 {
        // every constructible vendor code (0x40/0x41 are constructible through VendorOperation)
        let op = ctap2::VendorOperation::try_from(b).unwrap();
        c2.push((format!("vendor 0x{:02x}", b), ctap2::Request::Vendor(op)));
    }
    let ch: &'static [u8; 32] = Box::leak(Box::new([0x51u8; 32]));
    let app: &'static [u8; 32] = Box::leak(Box::new([0x52u8; 32]));
    let ch2: &'static [u8; 32] = Box::leak(Box::new([0x61u8; 32]));
    let app2: &'static [u8; 32] = Box::leak(Box::new([0x62u8; 32]));
    let kh = leak(vec![0x53; 40]);
    let c1 = vec![
        ("register".to_string(), ctap1::Request::Register(ctap1::register::Request { challenge: ch, app_id: app })),
        ("register'".to_string(), ctap1::Request::Register(ctap1::register::Request { challenge: ch2, app_id: app2 })),
        ("authenticate".to_string(), ctap1::Request::Authenticate(ctap1::authenticate::Request { control_byte: ctap1::ControlByte::CheckOnly, challenge: ch, app_id: app, key_handle: kh })),
        ("authenticate'".to_string(), ctap1::Request::Authenticate(ctap1::authenticate::Request { control_byte: ctap1::ControlByte::EnforceUserPresenceAndSign, challenge: ch2, app_id: app2, key_handle: &kh[..0] })),
        ("version".to_string(), ctap1::Request::Version),
    ];
    Alphabet { ctap2: c2, ctap1: c1 }
}

/// a wider request alphabet for single dispatches: every single and every pair of menu-value
/// deviations from the full anchor of every parameter-bearing command (what the handler receives
/// must be the request as decoded, whatever it says), and more CTAP1 shapes
pub fn wide_alphabet() -> Alphabet {
    let mut c2 = Vec::new();
    for b in [0x01u8, 0x02, 0x06, 0x0a, 0x0c] {
        let plan = Plan::new(&request_schema(command_of(b).unwrap()).unwrap(), Side::Request);
        let full = plan.full_mask();
        let mut devs: Vec<Vec<(usize, usize)>> = Vec::new();
        let n = plan.leaves.len();
        for a in 0..n {
            for i in 1..plan.leaves[a].menu.len() {
                devs.push(vec![(a, i)]);
            }
        }
        let mut pairs = 0usize;
        'outer: for a in 0..n {
            for c in a + 1..n {
                for i in 1..plan.leaves[a].menu.len() {
                    for j in 1..plan.leaves[c].menu.len() {
                        devs.push(vec![(a, i), (c, j)]);
                        pairs += 1;
                        if pairs >= 60_000 {
                            break 'outer;
                        }
                    }
                }
            }
        }
        for d in devs {
            let mut msg = vec![b];
            msg.extend(encode(&plan.build(full, &d)));
            if msg.len() > 7609 {
                continue;
            }
            let msg = leak(msg);
            if let Ok(r) = ctap2::Request::deserialize(msg) {
                c2.push((format!("0x{:02x}:full{:?}", b, d), r));
            }
        }
    }
    {
        // allow lists of three and four entries with a foreign credential type at every subset of positions
        use crate::refcbor::V;
        let plan = Plan::new(&request_schema(command_of(0x02).unwrap()).unwrap(), Side::Request);
        let leaf = plan.leaf_index("/allowList");
        for n in [3usize, 4] {
            for subset in 0..(1u32 << n) {
                let items: Vec<V> = (0..n).map(|i| V::M(vec![(V::t("id"), V::B(vec![0x60 + i as u8; 16])), (V::t("type"), V::t(if subset >> i & 1 == 1 { "x" } else { "public-key" }))])).collect();
                let mut msg = vec![0x02u8];
                msg.extend(encode(&plan.build_with(plan.full_mask(), &[], &[(leaf, V::A(items))])));
                if let Ok(r) = ctap2::Request::deserialize(leak(msg)) {
                    c2.push((format!("0x02:allow list of {} with foreign types at {:#b}", n, subset), r));
                }
            }
        }
    }
    let mut c1 = Vec::new();
    // registration requests whose two members are each one repeated byte: every pair of byte values
    for a in 0..=255u8 {
        for b in 0..=255u8 {
            let ch: &'static [u8; 32] = Box::leak(Box::new([b; 32]));
            let app: &'static [u8; 32] = Box::leak(Box::new([a; 32]));
            c1.push((format!("register app {:02x} challenge {:02x}", a, b), ctap1::Request::Register(ctap1::register::Request { challenge: ch, app_id: app })));
        }
    }
    for (k, cb) in [ctap1::ControlByte::CheckOnly, ctap1::ControlByte::EnforceUserPresenceAndSign, ctap1::ControlByte::DontEnforceUserPresenceAndSign].into_iter().enumerate() {
        for khl in [0usize, 1, 16, 64, 128, 190, 255] {
            for fill in [0x00u8, 0xff, 0x5a] {
                let ch: &'static [u8; 32] = Box::leak(Box::new([fill; 32]));
                let app: &'static [u8; 32] = Box::leak(Box::new([fill ^ 0x0f; 32]));
                let kh = leak(vec![fill; khl]);
                c1.push((format!("authenticate cb{} kh{} fill{:02x}", k, khl, fill), ctap1::Request::Authenticate(ctap1::authenticate::Request { control_byte: cb, challenge: ch, app_id: app, key_handle: kh })));
                if k == 0 && khl == 0 {
                    c1.push((format!("register fill{:02x}", fill), ctap1::Request::Register(ctap1::register::Request { challenge: ch, app_id: app })));
                }
            }
        }
    }
    Alphabet { ctap2: c2, ctap1: c1 }
}

/// (request index: ctap2 first then ctap1, entry point 0 = call_ctapN / 1 = Rpc::call, behaviour 0 = ok / 1..=4 = error)
pub type Step = (u32, u8, u16);

fn expected_call(r: &ctap2::Request<'_>) -> Call {
    match r {
        ctap2::Request::GetInfo => Call::GetInfo,
        ctap2::Request::MakeCredential(x) => Call::MakeCredential { ptr: x as *const _ as usize, arg: format!("{:?}", x) },
        ctap2::Request::GetAssertion(x) => Call::GetAssertion { ptr: x as *const _ as usize, arg: format!("{:?}", x) },
        ctap2::Request::GetNextAssertion => Call::GetNextAssertion,
        ctap2::Request::Reset => Call::Reset,
        ctap2::Request::ClientPin(x) => Call::ClientPin { ptr: x as *const _ as usize, arg: format!("{:?}", x) },
        ctap2::Request::CredentialManagement(x) => Call::CredentialManagement { ptr: x as *const _ as usize, arg: format!("{:?}", x) },
        ctap2::Request::Selection => Call::Selection,
        ctap2::Request::Vendor(op) => Call::Vendor((*op).into()),
        ctap2::Request::LargeBlobs(x) => Call::LargeBlobs { ptr: x as *const _ as usize, arg: format!("{:?}", x) },
        #[allow(unreachable_patterns)]
        _ => machinery_panic("unknown request variant"),
    }
}

fn expected_response(r: &ctap2::Request<'_>) -> ctap2::Response {
    match r {
        ctap2::Request::GetInfo => ctap2::Response::GetInfo(canned_info()),
        ctap2::Request::MakeCredential(_) => ctap2::Response::MakeCredential(canned_mc()),
        ctap2::Request::GetAssertion(_) => ctap2::Response::GetAssertion(canned_ga(0x22)),
        ctap2::Request::GetNextAssertion => ctap2::Response::GetNextAssertion(canned_ga(0x33)),
        ctap2::Request::Reset => ctap2::Response::Reset,
        ctap2::Request::ClientPin(_) => ctap2::Response::ClientPin(canned_cp()),
        ctap2::Request::CredentialManagement(_) => ctap2::Response::CredentialManagement(canned_cm()),
        ctap2::Request::Selection => ctap2::Response::Selection,
        ctap2::Request::Vendor(_) => ctap2::Response::Vendor,
        ctap2::Request::LargeBlobs(_) => ctap2::Response::LargeBlobs(canned_lb()),
        #[allow(unreachable_patterns)]
        _ => machinery_panic("unknown request variant"),
    }
}

/// run a history on a fresh mock; Some(message) on the first departure
pub fn run_history(al: &Alphabet, h: &[Step]) -> Option<(String, String)> {
    let mut mock = Mock { log: vec![], fail: None };
    for (i, (ri, entry, beh)) in h.iter().enumerate() {
        mock.fail = if *beh == 0 { None } else { Some(*beh as usize - 1) };
        let before = mock.log.len();
        let ri = *ri as usize;
        if ri < al.ctap2.len() {
            let (label, req) = &al.ctap2[ri];
            let clone = req.clone();
            let got = if *entry == 0 {
                ctap2::Authenticator::call_ctap2(&mut mock, req)
            } else {
                <Mock as ctap_types::Rpc<ctap2::Error, ctap2::Request, ctap2::Response>>::call(&mut mock, req)
            };
            if *req != clone {
                return Some((format!("step {} {}: request changed by dispatch", i, label), "request-mutated".into()));
            }
            let calls = &mock.log[before..];
            let want_call = expected_call(req);
            if calls.len() != 1 {
                return Some((format!("step {} {}: {} handler calls {:?}, expected exactly one ({})", i, label, calls.len(), calls.iter().map(|c| c.handler()).collect::<Vec<_>>(), want_call.handler()), format!("{}-calls|{}", calls.len(), want_call.handler())));
            }
            if calls[0].handler() != want_call.handler() {
                return Some((format!("step {} {}: reached {} instead of {}", i, label, calls[0].handler(), want_call.handler()), format!("wrong-handler|{}->{}", want_call.handler(), calls[0].handler())));
            }
            if calls[0] != want_call {
                return Some((format!("step {} {}: handler {} received a different argument: {:?} vs {:?}", i, label, want_call.handler(), calls[0], want_call), format!("argument|{}", want_call.handler())));
            }
            let infallible = matches!(req, ctap2::Request::GetInfo);
            let want: ctap2::Result<ctap2::Response> = if *beh == 0 || infallible { Ok(expected_response(req)) } else { Err(E2[*beh as usize - 1]) };
            if got != want {
                return Some((format!("step {} {}: result {:?}, expected {:?}", i, label, got, want), format!("result|{}", want_call.handler())));
            }
        } else {
            let (label, req) = &al.ctap1[ri - al.ctap2.len()];
            let clone = req.clone();
            let got = if *entry == 0 {
                ctap1::Authenticator::call_ctap1(&mut mock, req)
            } else {
                <Mock as ctap_types::Rpc<ctap1::Error, ctap1::Request<'_>, ctap1::Response>>::call(&mut mock, req)
            };
            if *req != clone {
                return Some((format!("step {} {}: request changed by dispatch", i, label), "request-mutated".into()));
            }
            let calls = &mock.log[before..];
            let (want_call, want): (Option<Call>, ctap1::Result<ctap1::Response>) = match req {
                ctap1::Request::Register(x) => (
                    Some(Call::Register { ptr: x as *const _ as usize, arg: format!("{:?}", x) }),
                    if *beh == 0 { Ok(ctap1::Response::Register(canned_reg())) } else { Err(e1()[*beh as usize - 1]) },
                ),
                ctap1::Request::Authenticate(x) => (
                    Some(Call::Authenticate { ptr: x as *const _ as usize, arg: format!("{:?}", x) }),
                    if *beh == 0 { Ok(ctap1::Response::Authenticate(canned_auth())) } else { Err(e1()[*beh as usize - 1]) },
                ),
                ctap1::Request::Version => (None, Ok(ctap1::Response::Version(*b"U2F_V7"))),
            };
            let want_calls: Vec<Call> = want_call.into_iter().collect();
            if calls != &want_calls[..] {
                return Some((format!("step {} {}: handler calls {:?}, expected {:?}", i, label, calls, want_calls), format!("ctap1-calls|{}", label.trim_end_matches('\''))));
            }
            if got != want {
                return Some((format!("step {} {}: result {:?}, expected {:?}", i, label, got, want), format!("ctap1-result|{}", label.trim_end_matches('\''))));
            }
        }
    }
    None
}

struct Dispatch {
    al: Arc<Alphabet>,
    max: usize,
    steps: Vec<Step>,
    wide: bool,
}

// the alphabet holds leaked 'static data only
unsafe impl Send for Dispatch {}
unsafe impl Sync for Dispatch {}

impl Space for Dispatch {
    type S = Vec<Step>;
    type A = Step;
    fn name(&self) -> String {
        format!("dispatch histories <= {}", self.max)
    }
    fn init(&self) -> Vec<Vec<Step>> {
        vec![vec![]]
    }
    fn actions(&self, s: &Vec<Step>, out: &mut Vec<Step>) {
        if s.len() < self.max {
            out.extend(self.steps.iter().cloned());
        }
    }
    fn next(&self, s: &Vec<Step>, a: &Step) -> Option<Vec<Step>> {
        let mut n = s.clone();
        n.push(*a);
        Some(n)
    }
    fn check(&self, s: &Vec<Step>) -> Verdict {
        match guard(|| run_history(&self.al, s)) {
            Ok(None) => Verdict::pass(),
            Ok(Some((msg, sig))) => Verdict::fail(format!("{}|{}", P, sig), "exactly one call of the command's own handler with the unchanged request; its result passed through", msg),
            Err(p) => Verdict::fail(format!("{}|panic", P), "no panic", p),
        }
    }
    fn case(&self, s: &Vec<Step>) -> Value {
        let n2 = self.al.ctap2.len();
        let names: Vec<String> = s
            .iter()
            .map(|(r, e, b)| {
                let label = if (*r as usize) < n2 { self.al.ctap2[*r as usize].0.clone() } else { self.al.ctap1[*r as usize - n2].0.clone() };
                format!("{} via {} behaviour {}", label, if *e == 0 { "call_ctapN" } else { "Rpc::call" }, b)
            })
            .collect();
        json!({"kind": "dispatch", "wide": self.wide, "history": s.iter().map(|(r, e, b)| vec![*r as u64, *e as u64, *b as u64]).collect::<Vec<_>>(), "readable": names})
    }
    fn nontrivial(&self, s: &Vec<Step>) -> bool {
        !s.is_empty()
    }
}

/// behaviours 0 (success) and 1..=n_err (error index + 1); CTAP1 requests have 8 errors
fn all_steps(al: &Alphabet, n_err2: u16, n_err1: u16) -> Vec<Step> {
    let mut v = Vec::new();
    for r in 0..(al.ctap2.len() + al.ctap1.len()) as u32 {
        let n = if (r as usize) < al.ctap2.len() { n_err2 } else { n_err1 };
        for e in 0..2u8 {
            for b in 0..=n {
                v.push((r, e, b));
            }
        }
    }
    v
}

/// authenticator without large-blob support: InvalidCommand, nothing called
fn check_no_lb(al: &Alphabet, ri: usize, entry: u8) -> Verdict {
    let (label, req) = &al.ctap2[ri];
    let r = guard(|| {
        let mut m = MockNoLb { log: vec![], fail: None };
        let got = if entry == 0 {
            ctap2::Authenticator::call_ctap2(&mut m, req)
        } else {
            <MockNoLb as ctap_types::Rpc<ctap2::Error, ctap2::Request, ctap2::Response>>::call(&mut m, req)
        };
        (got, m.log)
    });
    match r {
        Err(p) => Verdict::fail(format!("{}|no-large-blobs|panic", P), "no panic", p),
        Ok((got, log)) => {
            if matches!(req, ctap2::Request::LargeBlobs(_)) {
                if got == Err(ctap2::Error::InvalidCommand) && log.is_empty() {
                    Verdict::pass()
                } else {
                    Verdict::fail(format!("{}|no-large-blobs|not-InvalidCommand", P), "Err(InvalidCommand), no handler called", format!("{:?} log {:?} for {}", got, log, label))
                }
            } else if log.len() == 1 && log[0].handler() == expected_call(req).handler() && got == Ok(expected_response(req)) {
                Verdict::pass()
            } else {
                Verdict::fail(format!("{}|no-large-blobs|other-command-disturbed", P), "unchanged dispatch", format!("{:?} log {:?} for {}", got, log, label))
            }
        }
    }
}

pub fn run(ctx: &'static Ctx) {
    ctx.rule("state = history of dispatches (request, entry point, handler behaviour) replayed on a fresh recording mock; every state checks: exactly one handler call, the command's own handler, pointer-identical and unchanged argument, result or error passed through unchanged; non-trivial = at least one dispatch");
    let al = Arc::new(alphabet());
    let steps = all_steps(&al, 4, 4);
    let n = steps.len() as u64;
    let steps_all_errors = all_steps(&al, E2.len() as u16, e1().len() as u16);
    let max = if ctx.thorough() { 2 } else { 2 };
    // depth 2 over the whole alphabet is ~0.7 M histories; the quick tier restricts the second
    // step to one vendor code instead of all 64 (dispatch must be stateless: length 2 shows that)
    let steps_used: Vec<Step> = if true {
        steps.clone()
    } else {
        let keep_vendor = al.ctap2.iter().position(|(l, _)| l == "vendor 0x42").unwrap() as u32;
        steps.iter().cloned().filter(|(r, _, _)| !al.ctap2.get(*r as usize).map_or(false, |(l, _)| l.starts_with("vendor")) || *r == keep_vendor).collect()
    };
    let k = steps_used.len() as u64;
    ctx.note(format!("{} CTAP2 requests (incl. 64 vendor codes), {} CTAP1 requests, 2 entry points, 5 behaviours: {} single dispatches; {} used for histories", al.ctap2.len(), al.ctap1.len(), n, k));
    // all single dispatches (every vendor code)
    let al1 = al.clone();
    let n_all = steps_all_errors.len() as u64;
    explore(ctx, Dispatch { al: al1, max: 1, steps: steps_all_errors, wide: false }, Some(1 + n_all), "every request variant incl. every vendor code x both entry points x success / every named CTAP2 status (55) resp. every value of the CTAP1 status type (all assigned status words, every parameter byte of the parametrised ones) as the handler's error");
    {
        let wide = Arc::new(wide_alphabet());
        let ws = all_steps(&wide, 1, 1);
        let nw = ws.len() as u64;
        ctx.note(format!("wide alphabet: {} CTAP2 requests (single and pair deviations from the full anchors that decode), {} CTAP1 requests", wide.ctap2.len(), wide.ctap1.len()));
        let d = Dispatch { al: wide, max: 1, steps: vec![], wide: true };
        let (dr, wr) = (&d, &ws);
        sweep(ctx, "single dispatches over the wide request alphabet", nw, "every single and every pair of value deviations from the full anchor of every parameter-bearing command, 66 authenticate / register shapes and every (application, challenge) pair of repeated byte values, x both entry points x success / one error", move |idx, l| {
            let h = vec![wr[idx as usize]];
            l.nontrivial += 1;
            l.bump("wide dispatch");
            let v = dr.check(&h);
            if !v.ok {
                l.fail(ctx, idx, v, || dr.case(&h));
            }
        });
    }
    let al2 = al.clone();
    explore(ctx, Dispatch { al: al2, max, steps: steps_used, wide: false }, Some(1 + k + k * k), "histories of two dispatches on one authenticator: nothing is carried over");
    {
        // three (thorough: four) dispatches in a row over one payload per command and one vendor
        // code, success and one error: e.g. GetAssertion announcing two credentials followed by
        // GetNextAssertion twice
        let keep_vendor = al.ctap2.iter().position(|(l, _)| l == "vendor 0x42").unwrap() as u32;
        let sq: Vec<Step> = steps
            .iter()
            .cloned()
            .filter(|(r, _, b)| {
                let lab = if (*r as usize) < al.ctap2.len() { &al.ctap2[*r as usize].0 } else { &al.ctap1[*r as usize - al.ctap2.len()].0 };
                *b <= 1 && (!lab.starts_with("vendor") || *r == keep_vendor) && !lab.ends_with(":full") && !lab.ends_with('\'') && !lab.starts_with("0x0c:")
            })
            .collect();
        let kq = sq.len() as u64;
        let depth = if ctx.thorough() { 4 } else { 3 };
        let expect: u64 = (0..=depth as u32).map(|d| kq.pow(d)).sum();
        explore(ctx, Dispatch { al: al.clone(), max: depth, steps: sq, wide: false }, Some(expect), "histories of three (thorough: four) dispatches over one payload per command, one vendor code, success and one error");
    }
    if ctx.thorough() {
        // three dispatches in a row: one vendor code, first payload of each command, success and two errors
        let keep_vendor = al.ctap2.iter().position(|(l, _)| l == "vendor 0x42").unwrap() as u32;
        let s3: Vec<Step> = steps
            .iter()
            .cloned()
            .filter(|(r, _, b)| {
                let lab = if (*r as usize) < al.ctap2.len() { &al.ctap2[*r as usize].0 } else { &al.ctap1[*r as usize - al.ctap2.len()].0 };
                *b <= 2 && (!lab.starts_with("vendor") || *r == keep_vendor) && !lab.ends_with(":full") && !lab.ends_with('\'')
            })
            .collect();
        let k3 = s3.len() as u64;
        let al3 = al.clone();
        explore(ctx, Dispatch { al: al3, max: 3, steps: s3, wide: false }, Some(1 + k3 + k3 * k3 + k3 * k3 * k3), "histories of three dispatches over one payload per command, one vendor code, success and two errors");
    }
    let nolb = (al.ctap2.len() * 2) as u64;
    let alr = &*al;
    sweep(ctx, "authenticator without large-blob support", nolb, "every CTAP2 request x both entry points on a mock that does not override large_blobs", move |idx, l| {
        l.nontrivial += 1;
        let v = check_no_lb(alr, (idx / 2) as usize, (idx % 2) as u8);
        l.bump(if matches!(alr.ctap2[(idx / 2) as usize].1, ctap2::Request::LargeBlobs(_)) { "large blobs without support" } else { "other command" });
        if !v.ok {
            l.fail(ctx, idx, v, || json!({"kind": "no-lb", "request": idx / 2, "entry": idx % 2}));
        }
    });
    ctx.require_outcomes(&["large blobs without support", "other command"]);
    ctx.sample(json!({"history": ["0x07 via call_ctap2 behaviour error PinInvalid", "0x0b via Rpc::call behaviour ok"], "oracle": "log = [reset], Err(PinInvalid); then log += [selection], Ok(Selection)"}));
}

pub fn replay(case: &Value) -> Verdict {
    let al = Arc::new(alphabet());
    match case["kind"].as_str() {
        Some("no-lb") => check_no_lb(&al, case["request"].as_u64().unwrap() as usize, case["entry"].as_u64().unwrap() as u8),
        _ => {
            let h: Vec<Step> = case["history"].as_array().unwrap().iter().map(|s| (s[0].as_u64().unwrap() as u32, s[1].as_u64().unwrap() as u8, s[2].as_u64().unwrap() as u16)).collect();
            let wide = case["wide"].as_bool().unwrap_or(false);
            let al = if wide { Arc::new(wide_alphabet()) } else { al };
            Dispatch { al, max: 2, steps: vec![], wide }.check(&h)
        }
    }
}
