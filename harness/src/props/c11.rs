//! C11 — the command-byte table is total, exact and invertible.

use crate::core::*;
use crate::refcbor::{hex, unhex, V};
use crate::refmodel::{Plan, Side};
use crate::spec::*;
use crate::subject::*;
use ctap_types::ctap2::{Operation, VendorOperation};
use serde_json::{json, Value};

const P_: &str = "C11";

fn anchors() -> Vec<Vec<u8>> {
    let mut v = Vec::new();
    for cmd in [Cmd::MakeCredential, Cmd::GetAssertion, Cmd::ClientPin, Cmd::CredentialManagement, Cmd::LargeBlobs] {
        let plan = Plan::new(&request_schema(cmd).unwrap(), Side::Request);
        v.push(crate::refcbor::encode(&plan.build(0, &[])));
        v.push(crate::refcbor::encode(&plan.build(plan.full_mask(), &[])));
    }
    v
}

fn expected_cmd_name(c: Cmd) -> String {
    match c {
        Cmd::Vendor(b) => format!("Vendor({})", b),
        other => format!("{:?}", other),
    }
}

/// oracle for one (command byte, payload)
fn check_point(byte: u8, payload: &[u8]) -> Verdict {
    let mut msg = Vec::with_capacity(1 + payload.len());
    msg.push(byte);
    msg.extend_from_slice(payload);
    let got = decode_request(&msg);
    let sig = |what: &str| format!("C11|byte=0x{:02x}|{}", byte, what);
    if let Dec::Panic(p) = &got {
        return Verdict::fail(sig("panic"), "a request or an error status", format!("PANIC {}", p));
    }
    match command_of(byte) {
        None => {
            if got != Dec::Err(ST_INVALID_COMMAND) {
                return Verdict::fail(sig("not-InvalidCommand"), "Err(0x01) whatever follows", got.show());
            }
        }
        Some(cmd) => match request_schema(cmd) {
            None => {
                let want = V::M(vec![(V::t("cmd"), V::t(&expected_cmd_name(cmd)))]);
                if got != Dec::Ok(want.clone()) {
                    return Verdict::fail(sig("parameterless-not-decoded"), format!("Ok({:?}) whatever follows", want), got.show());
                }
            }
            Some(_) => {
                if got == Dec::Err(ST_INVALID_COMMAND) {
                    return Verdict::fail(sig("assigned-command-rejected"), "anything but InvalidCommand", got.show());
                }
                if let Dec::Ok(v) = &got {
                    let name = v.get_t("cmd").and_then(|c| c.as_str().map(|s| s.to_string())).unwrap_or_default();
                    if name != expected_cmd_name(cmd) {
                        return Verdict::fail(sig("wrong-request-kind"), expected_cmd_name(cmd), got.show());
                    }
                }
                if byte == 0x41 {
                    msg[0] = 0x0a;
                    let other = decode_request(&msg);
                    if other != got {
                        return Verdict::fail(sig("0x41-differs-from-0x0A"), other.show(), got.show());
                    }
                }
            }
        },
    }
    Verdict::pass()
}

fn check_tables(byte: u8) -> Verdict {
    let sig = |what: &str| format!("C11|op-table|byte=0x{:02x}|{}", byte, what);
    let r = guard(|| {
        let op = Operation::try_from(byte);
        let recognised = operation_name(byte).is_some();
        if op.is_ok() != recognised {
            return Verdict::fail(sig("recognition"), format!("recognised={}", recognised), format!("{:?}", op));
        }
        if let Ok(op) = op {
            let back: u8 = op.into();
            if back != byte || op.into_u8() != byte {
                return Verdict::fail(sig("not-invertible"), format!("0x{:02x}", byte), format!("0x{:02x} via {:?}", back, op));
            }
            let is_vendor = matches!(op, Operation::Vendor(_));
            if is_vendor != (0x42..=0x7f).contains(&byte) {
                return Verdict::fail(sig("vendor-range"), "vendor iff 0x42..=0x7f", format!("{:?}", op));
            }
            if let Operation::Vendor(v) = op {
                if u8::from(v) != byte {
                    return Verdict::fail(sig("vendor-code"), format!("{}", byte), format!("{:?}", v));
                }
            }
            // injectivity: no other byte yields an equal operation
            for other in 0..=255u8 {
                if other != byte {
                    if let Ok(o2) = Operation::try_from(other) {
                        if o2 == op {
                            return Verdict::fail(sig("shared-operation"), "distinct operations", format!("0x{:02x} and 0x{:02x} -> {:?}", byte, other, op));
                        }
                    }
                }
            }
        }
        let v = VendorOperation::try_from(byte);
        let in_range = (0x40..=0x7f).contains(&byte);
        if v.is_ok() != in_range {
            return Verdict::fail(sig("vendor-operation-range"), format!("ok={}", in_range), format!("{:?}", v));
        }
        if let Ok(v) = v {
            if u8::from(v) != byte {
                return Verdict::fail(sig("vendor-operation-code"), format!("{}", byte), format!("{:?}", v));
            }
        }
        Verdict::pass()
    });
    match r {
        Ok(v) => v,
        Err(p) => Verdict::fail(sig("panic"), "no panic", p),
    }
}

pub fn run(ctx: &'static Ctx) {
    ctx.rule("every (command byte, payload) point and every table byte is a distinct state; non-trivial = the decoder was entered with at least one payload byte");
    ctx.assume("VendorOperation::try_from accepts its documented FIRST..=LAST range (0x40..=0x7f); the property's vendor range (minus 0x40/0x41) is asserted on the command table and the request decoder (DESIGN §5 O2)");
    let anchors = anchors();
    let mut fixed: Vec<Vec<u8>> = vec![vec![]];
    fixed.extend(anchors.iter().cloned());
    fixed.push(vec![0xa2, 0x01]); // truncated map
    fixed.push(vec![0xff; 16]);
    fixed.push(vec![0xa0]);
    fixed.push(vec![0xbf, 0xff]);
    let n_fixed = fixed.len() as u64;
    let per_byte = n_fixed + 256 + 65536;
    let total = 256 * per_byte;
    sweep(ctx, "cmd-byte x payloads", total, "256 first bytes x {empty, 10 valid anchors, malformed, all 1-byte, all 2-byte payloads}", |idx, l| {
        let byte = (idx / per_byte) as u8;
        let p = idx % per_byte;
        let mut buf = [0u8; 2];
        let payload: &[u8] = if p < n_fixed {
            &fixed[p as usize]
        } else if p < n_fixed + 256 {
            buf[0] = (p - n_fixed) as u8;
            &buf[..1]
        } else {
            let q = p - n_fixed - 256;
            buf = [(q >> 8) as u8, q as u8];
            &buf[..2]
        };
        if !payload.is_empty() {
            l.nontrivial += 1;
        }
        let v = check_point(byte, payload);
        match command_of(byte) {
            None => l.bump("invalid-command bytes"),
            Some(c) if request_schema(c).is_none() => l.bump("parameterless"),
            Some(_) => l.bump("parameter-bearing"),
        }
        if !v.ok {
            let pl = payload.to_vec();
            l.fail(ctx, idx, v, || json!({"kind": "cmd-payload", "byte": byte, "payload": hex(&pl)}));
        }
    });
    // "whatever bytes follow" up to the largest message a transport can deliver (7609 bytes)
    {
        let lens: Vec<usize> = (0..=64).map(|k| 7608 - k).chain([4, 23, 24, 255, 256, 1023, 1024, 1025, 2048, 4096, 6000, 7000, 7400, 7500]).collect();
        let per = (lens.len() * 4) as u64;
        let lr = &lens;
        sweep(ctx, "cmd-byte x long payloads", 256 * per, "256 first bytes x payload lengths 4..=7608 (every length of the last 64) x {zeros, 0xff, one text string filling the payload, one byte string filling the payload}", move |idx, l| {
            let byte = (idx / per) as u8;
            let q = (idx % per) as usize;
            let n = lr[q / 4];
            let payload: Vec<u8> = match q % 4 {
                0 => vec![0u8; n],
                1 => vec![0xff; n],
                k => {
                    let major = if k == 2 { 0x60u8 } else { 0x40 };
                    let mut p = Vec::with_capacity(n);
                    if n < 3 + 256 {
                        p.resize(n, 0);
                    } else {
                        p.push(major | 25);
                        p.extend_from_slice(&((n - 3) as u16).to_be_bytes());
                        p.resize(n, b'a');
                    }
                    p
                }
            };
            l.nontrivial += 1;
            l.bump("long payload");
            let v = check_point(byte, &payload);
            if !v.ok {
                l.fail(ctx, idx, v, || json!({"kind": "cmd-payload", "byte": byte, "payload": hex(&payload)}));
            }
        });
    }
    if ctx.thorough() {
        sweep(ctx, "cmd-byte x every 3-byte payload", 256u64 << 24, "complete: 256 first bytes x all 16 777 216 three-byte payloads", |idx, l| {
            let byte = (idx >> 24) as u8;
            let p = [(idx >> 16) as u8, (idx >> 8) as u8, idx as u8];
            l.nontrivial += 1;
            let v = check_point(byte, &p);
            if !v.ok {
                l.fail(ctx, idx, v, || json!({"kind": "cmd-payload", "byte": byte, "payload": hex(&p)}));
            }
        });
    }
    // the prototype credential-management byte must decode exactly like 0x0A: all 3-byte payloads
    sweep(ctx, "0x41 vs 0x0A on every 3-byte payload", 1 << 24, "complete", |idx, l| {
        let p = [(idx >> 16) as u8, (idx >> 8) as u8, idx as u8];
        l.nontrivial += 1;
        let v = check_point(0x41, &p);
        l.bump("prototype alias");
        if !v.ok {
            l.fail(ctx, idx, v, || json!({"kind": "cmd-payload", "byte": 0x41, "payload": hex(&p)}));
        }
    });
    // ... and on every member subset and every single value deviation of a CredentialManagement message
    {
        let plan = Plan::new(&request_schema(Cmd::CredentialManagement).unwrap(), Side::Request);
        let mut payloads: Vec<Vec<u8>> = Vec::new();
        for m in 0..(1u64 << plan.opts.len()) {
            if plan.valid(m) {
                payloads.push(crate::refcbor::encode(&plan.build(m, &[])));
            }
        }
        for anchor in [0u64, plan.full_mask()] {
            for (li, info) in plan.leaves.iter().enumerate() {
                if plan.leaf_enabled(li, anchor) {
                    for i in 1..info.menu.len() {
                        payloads.push(crate::refcbor::encode(&plan.build(anchor, &[(li, i)])));
                    }
                }
            }
        }
        // ... and every pair of value deviations (a sub-command next to a particular form of
        // another member)
        for anchor in [0u64, plan.full_mask()] {
            let enabled: Vec<usize> = (0..plan.leaves.len()).filter(|l| plan.leaf_enabled(*l, anchor)).collect();
            for (ai, a) in enabled.iter().enumerate() {
                for b in &enabled[ai + 1..] {
                    for i in 1..plan.leaves[*a].menu.len() {
                        for j in 1..plan.leaves[*b].menu.len() {
                            payloads.push(crate::refcbor::encode(&plan.build(anchor, &[(*a, i), (*b, j)])));
                        }
                    }
                }
            }
        }
        // ... and every sub-command with every single optional member present at each menu value
        for o in 0..plan.opts.len() {
            let m = plan.normalize_up(1u64 << o);
            for (li, info) in plan.leaves.iter().enumerate() {
                if plan.leaf_enabled(li, m) {
                    for i in 0..info.menu.len() {
                        for (lj, info2) in plan.leaves.iter().enumerate() {
                            if lj != li && plan.leaf_enabled(lj, m) {
                                for j in 0..info2.menu.len() {
                                    payloads.push(crate::refcbor::encode(&plan.build(m, &[(li, i), (lj, j)])));
                                }
                            }
                        }
                    }
                }
            }
        }
        payloads.sort();
        payloads.dedup();
        let pr = &payloads;
        sweep(ctx, "0x41 vs 0x0A on the credential-management corpus", payloads.len() as u64, "every member subset, every single and every pair of menu-value deviations from both anchors, and every pair of values in messages with one optional member, of a CredentialManagement parameter map", move |idx, l| {
            l.nontrivial += 1;
            let v = check_point(0x41, &pr[idx as usize]);
            l.bump("prototype alias");
            if !v.ok {
                l.fail(ctx, idx, v, || json!({"kind": "cmd-payload", "byte": 0x41, "payload": hex(&pr[idx as usize])}));
            }
        });
    }
    sweep(ctx, "operation tables", 256, "Operation::try_from / into u8 / VendorOperation over all 256 bytes", |idx, l| {
        l.nontrivial += 1;
        let v = check_tables(idx as u8);
        l.bump(if operation_name(idx as u8).is_some() { "recognised byte" } else { "unrecognised byte" });
        if !v.ok {
            l.fail(ctx, idx, v, || json!({"kind": "op-table", "byte": idx}));
        }
    });
    // the whole message, command byte included, happens to be one well-formed CBOR item (a string
    // head whose announced length is exactly the rest of the message, an array / map head with that
    // many items, an integer with its following bytes, a tag, a simple value)
    {
        let mut msgs: Vec<Vec<u8>> = Vec::new();
        for b in 0..=255u8 {
            let (major, info) = (b >> 5, b & 31);
            let args: Vec<(Vec<u8>, u64)> = match info {
                0..=23 => vec![(vec![], info as u64)],
                24 => [24u64, 100, 255].iter().map(|n| (vec![*n as u8], *n)).collect(),
                25 => [256u64, 1000, 7000].iter().map(|n| ((*n as u16).to_be_bytes().to_vec(), *n)).collect(),
                26 => vec![(vec![0, 0, 1, 0], 256)],
                27 => vec![(vec![0, 0, 0, 0, 0, 0, 1, 0], 256)],
                _ => vec![(vec![], 0)],
            };
            for (arg, n) in args {
                let mut m = vec![b];
                m.extend_from_slice(&arg);
                match major {
                    2 => m.extend(std::iter::repeat(0x5a).take(n as usize)),
                    3 => m.extend(std::iter::repeat(b'a').take(n as usize)),
                    4 => m.extend(std::iter::repeat(0x00).take(n as usize)),
                    5 => m.extend(std::iter::repeat(0x00).take(2 * n as usize)),
                    6 => m.push(0x00),
                    _ => {}
                }
                if m.len() <= 7609 {
                    msgs.push(m.clone());
                    // ... and one byte more / fewer than announced
                    let mut longer = m.clone();
                    longer.push(0x00);
                    msgs.push(longer);
                    if m.len() > 1 {
                        m.pop();
                        msgs.push(m);
                    }
                }
            }
        }
        let mr = &msgs;
        sweep(ctx, "messages that are one CBOR item as a whole", msgs.len() as u64, "for every first byte read as a CBOR head: the message completed to exactly one well-formed item (strings of 24 / 100 / 255 / 256 / 1000 / 7000 bytes, arrays, maps, tags), and one byte longer / shorter", move |idx, l| {
            let m = &mr[idx as usize];
            l.nontrivial += 1;
            l.bump("whole-message item");
            let v = check_point(m[0], &m[1..]);
            if !v.ok {
                l.fail(ctx, idx, v, || json!({"kind": "cmd-payload", "byte": m[0], "payload": hex(&m[1..])}));
            }
        });
    }
    // no memory between calls: every ordered pair of a corpus of complete messages (both
    // credential-management bytes with every sub-command, every parameter-less command, anchors)
    {
        let mut corpus: Vec<(String, Vec<u8>)> = Vec::new();
        for cmd in [0x0au8, 0x41] {
            for sub in 1..=7u64 {
                let mut m = vec![cmd];
                m.extend(crate::refcbor::encode(&V::M(vec![(V::U(1), V::U(sub))])));
                corpus.push((format!("0x{:02x} sub-command {}", cmd, sub), m));
                let mut m = vec![cmd];
                m.extend(crate::refcbor::encode(&V::M(vec![(V::U(1), V::U(sub)), (V::U(3), V::U(1)), (V::U(4), V::B(vec![7; 16]))])));
                corpus.push((format!("0x{:02x} sub-command {} with pin auth", cmd, sub), m));
            }
        }
        for b in [0x04u8, 0x07, 0x08, 0x0b, 0x40, 0x42, 0x7f, 0x09, 0x0d, 0x00, 0xff] {
            corpus.push((format!("0x{:02x}", b), vec![b]));
        }
        for (i, a) in anchors.iter().enumerate() {
            let cmd = [0x01u8, 0x02, 0x06, 0x0a, 0x0c][i / 2];
            let mut m = vec![cmd];
            m.extend_from_slice(a);
            corpus.push((format!("0x{:02x} anchor {}", cmd, i % 2), m));
        }
        let items: Vec<(String, Box<dyn Fn() -> String + Sync>)> = corpus.into_iter().map(|(l, m)| (l, Box::new(move || decode_request(&m).show()) as Box<dyn Fn() -> String + Sync>)).collect();
        pair_histories(ctx, P_, "message decode call pairs", "every ordered pair of 49 complete messages decoded back to back: the second result must not depend on the first", &items);
    }
    // the tables keep no memory: every ordered pair of command bytes, looked up and decoded back to back
    {
        let show = |b: u8| -> String {
            let op = guard(|| format!("{:?}/{:?}", Operation::try_from(b), VendorOperation::try_from(b))).unwrap_or_else(|p| format!("PANIC {}", p));
            format!("{} {}", op, decode_request(&[b, 0xa0]).show())
        };
        let base: Vec<String> = (0..=255u8).map(show).collect();
        let br = &base;
        sweep_seq(ctx, "ordered pairs of command bytes", 65536, "Operation::try_from, VendorOperation::try_from and Request::deserialize([b, A0]) for byte b right after the same three calls for byte a, every (a, b): same result as on its own", move |idx, l| {
            let (a, b) = ((idx >> 8) as u8, idx as u8);
            l.nontrivial += 1;
            let _ = show(a);
            let got = show(b);
            l.bump("byte pair");
            if got != br[b as usize] {
                let v = Verdict::fail(format!("{}|result-depends-on-previous-call", P_), br[b as usize].clone(), format!("{} after byte 0x{:02x}", got, a));
                l.fail(ctx, idx, v, || json!({"kind": "call-pair", "first": a, "second": b, "note": "re-run the check to replay: the outcome depends on process history"}));
            }
        });
    }
    ctx.require_outcomes(&["invalid-command bytes", "parameterless", "parameter-bearing", "recognised byte", "unrecognised byte"]);
    ctx.sample(json!({"byte": "0x41", "payload": hex(&anchors[6]), "oracle": "decodes exactly like 0x0a"}));
    ctx.sample(json!({"byte": "0x0d", "payload": "ffff", "oracle": "Err(0x01) whatever follows"}));
    ctx.sample(json!({"byte": "0x7f", "payload": "a201", "oracle": "Ok(Vendor(127)) whatever follows"}));
}

pub fn replay(case: &Value) -> Verdict {
    match case["kind"].as_str() {
        Some("cmd-payload") => check_point(case["byte"].as_u64().unwrap() as u8, &unhex(case["payload"].as_str().unwrap())),
        Some("op-table") => check_tables(case["byte"].as_u64().unwrap() as u8),
        Some("call-pair") => Verdict::pass(), // history-dependent: only a fresh run of the check can reproduce it
        _ => machinery_panic("C11: unknown replay kind"),
    }
}
