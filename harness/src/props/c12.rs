//! C12 — size and range limits are exact; accepted values are never altered to fit.

use crate::core::*;
use crate::refcbor::V;
use crate::refmodel::{descriptor, fill_bytes, fill_text, param};
use crate::reqcheck::*;
use crate::spec::*;
use crate::treewalk::{self, TSite};
use serde_json::{json, Value};

const P: &str = "C12";

fn int_values(max: u64) -> Vec<u64> {
    let mut v = vec![0, 1, 23, 24, 255, 256, 65535, 65536, u32::MAX as u64 - 1, u32::MAX as u64, 1 << 32, (1 << 63) - 1, 1 << 63, u64::MAX - 1, u64::MAX];
    v.extend([max.saturating_sub(1), max, max.saturating_add(1)]);
    v.sort();
    v.dedup();
    v
}

/// every probe value for a site, by its declared type
fn probes(site: &TSite, orig: &V, dense: bool) -> Vec<(String, V)> {
    let mut out = Vec::new();
    let lens = |c: usize| -> Vec<usize> {
        let mut v: Vec<usize> = if dense { (0..=c + 64).collect() } else { vec![0, 1, c.saturating_sub(1), c, c + 1] };
        v.extend([2 * c + 1, 4 * c + 1000, 7000]);
        v.sort();
        v.dedup();
        v
    };
    match &site.ty {
        Ty::Bytes(Some(c)) => {
            lens(*c).into_iter().for_each(|n| out.push((format!("bytes({})", n), V::B(fill_bytes(n, 9)))));
            // contents that are themselves a well-formed CBOR string of exactly the rest
            for n in [2usize, 24, 25, 26, c.saturating_sub(1), *c, c + 1, c + 2, c + 3] {
                if n >= 2 {
                    let mut d = fill_bytes(n, 9);
                    if n - 1 <= 23 {
                        d[0] = 0x40 + (n - 1) as u8;
                    } else if n - 2 <= 255 {
                        d[0] = 0x58;
                        d[1] = (n - 2) as u8;
                    } else {
                        d[0] = 0x59;
                        d[1] = ((n - 3) >> 8) as u8;
                        d[2] = (n - 3) as u8;
                    }
                    out.push((format!("cbor-wrapped bytes({})", n), V::B(d)));
                }
            }
        }
        Ty::BytesExact(c) => lens(*c).into_iter().for_each(|n| out.push((format!("bytes({})", n), V::B(fill_bytes(n, 9))))),
        Ty::Bytes(None) => [0usize, 1, 255, 256, 1024, 4000].iter().for_each(|n| out.push((format!("bytes({})", n), V::B(fill_bytes(*n, 9))))),
        Ty::Text(Some(c)) | Ty::TextSkip(c) | Ty::TextTrunc(c) => {
            lens(*c).into_iter().for_each(|n| out.push((format!("text({})", n), V::t(&fill_text(n, 9)))));
            // limits are byte limits: multi-byte text just below / at / above them
            for width in [2usize, 3, 4] {
                for n in c.saturating_sub(4)..=c + 6 {
                    out.push((format!("wide-text({} bytes, width {})", n, width), V::t(&crate::refmodel::fill_wide(n, width))));
                }
                out.push((format!("wide-text({} bytes, width {})", 2 * c + 2, width), V::t(&crate::refmodel::fill_wide(2 * c + 2, width))));
            }
        }
        Ty::Text(None) | Ty::Icon => [0usize, 1, 255, 256, 1024, 4000].iter().for_each(|n| out.push((format!("text({})", n), V::t(&fill_text(*n, 9))))),
        Ty::List(_, Some(c)) => {
            let elem = orig.as_arr().and_then(|a| a.first().cloned()).unwrap_or_else(|| descriptor(0, 16));
            let mut ns: Vec<usize> = (0..=c + 8).collect();
            ns.extend([2 * c + 1, 64]);
            for n in ns {
                out.push((format!("list({})", n), V::A((0..n).map(|i| if matches!(elem, V::M(_)) { descriptor(i, 16) } else { elem.clone() }).collect())));
            }
        }
        Ty::Params => {
            for n in [0usize, 1, 2, 3, 12, 13, 64] {
                out.push((format!("params({})", n), V::A((0..n).map(|i| param(if i % 2 == 0 { -7 } else { -8 }, PUBLIC_KEY)).collect())));
            }
            // an entry at / beyond its own limits placed after 0..=3 recognised entries and followed by 0..=1 more
            let bad: Vec<(&str, V)> = vec![
                ("type of 33 bytes", param(-7, &fill_text(33, 4))),
                ("type of 32 bytes (fits)", param(-7, &fill_text(32, 4))),
                ("alg 2^31", V::M(vec![(V::t("alg"), V::U(1 << 31)), (V::t("type"), V::t(PUBLIC_KEY))])),
                ("alg -2^31-1", V::M(vec![(V::t("alg"), V::N(1 << 31)), (V::t("type"), V::t(PUBLIC_KEY))])),
                ("alg -2^31 (fits)", param(i32::MIN as i64, PUBLIC_KEY)),
                ("alg 2^32-7", V::M(vec![(V::t("alg"), V::U((1 << 32) - 7)), (V::t("type"), V::t(PUBLIC_KEY))])),
                // the range applies to every entry, also to those that are filtered out afterwards
                ("alg 2^31 with a foreign type", V::M(vec![(V::t("alg"), V::U(1 << 31)), (V::t("type"), V::t("private-key"))])),
                ("alg -2^31-1 with a foreign type", V::M(vec![(V::t("alg"), V::N(1 << 31)), (V::t("type"), V::t("x"))])),
                ("alg 2^63 with an empty type", V::M(vec![(V::t("alg"), V::U(1 << 63)), (V::t("type"), V::t(""))])),
                ("alg 2^31-1 with a foreign type (fits)", V::M(vec![(V::t("alg"), V::U((1 << 31) - 1)), (V::t("type"), V::t("private-key"))])),
                ("foreign type of 33 bytes", param(-8, &fill_text(33, 5))),
            ];
            for (what, b) in &bad {
                for before in 0..=3usize {
                    for after in 0..=1usize {
                        let mut items: Vec<V> = (0..before).map(|i| param(if i % 2 == 0 { -7 } else { -8 }, PUBLIC_KEY)).collect();
                        items.push(b.clone());
                        items.extend((0..after).map(|_| param(-8, PUBLIC_KEY)));
                        out.push((format!("params: {} after {} recognised entries, {} following", what, before, after), V::A(items)));
                    }
                }
            }
        }
        Ty::Uint(max) => int_values(*max).into_iter().for_each(|x| out.push((format!("uint({})", x), V::U(x)))),
        Ty::Enum(_) => (0..=20u64).chain([254, 255, 256, 65535, 1 << 32]).for_each(|x| out.push((format!("uint({})", x), V::U(x)))),
        Ty::Int32 => {
            for x in int_values(i32::MAX as u64) {
                out.push((format!("int({})", x), V::U(x)));
                out.push((format!("int(-1-{})", x), V::N(x)));
            }
        }
        _ => {}
    }
    if matches!(site.ty, Ty::Params | Ty::List(..)) && accepts_reordered_entries() {
        // the same lists with the members of every entry in the other order
        let rev: Vec<(String, V)> = out.iter().map(|(w, v)| (format!("{} (entry members reversed)", w), reverse_maps(v))).filter(|(_, v)| !out.iter().any(|(_, o)| o == v)).collect();
        out.extend(rev);
    }
    out
}

fn bounded(ty: &Ty) -> bool {
    matches!(ty, Ty::Bytes(_) | Ty::BytesExact(_) | Ty::Text(_) | Ty::TextSkip(_) | Ty::TextTrunc(_) | Ty::Icon | Ty::List(_, Some(_)) | Ty::Params | Ty::Uint(_) | Ty::Enum(_) | Ty::Int32)
}

pub fn run(ctx: &'static Ctx) {
    ctx.rule("state = (seed message, bounded member, probe value); the mutated message is decoded by the real code and compared in full with the reference decoder (accept iff within the declared limit; accepted values whole); non-trivial = every probe");
    ctx.assume("limits come from the specification tables in spec.rs, not from sizes.rs; COSE kty/alg/crv sign and value checks are part of the reference decoder");
    // window around every limit in the pair / context spaces: c-1..=c+1, thorough c-4..=c+4
    let span: usize = if ctx.thorough() { 4 } else { 1 };
    let mut seeds = seed_msgs(false);
    // limits do not depend on the order in which members arrive either
    seeds.extend(reversed_full_seeds());
    let mut repls: Vec<Repl> = Vec::new();
    let mut members: std::collections::BTreeSet<String> = Default::default();
    for (si, s) in seeds.iter().enumerate() {
        let anchor = s.label.ends_with(":full") || s.label.ends_with(":minimal") || s.label.ends_with("(members reversed)");
        for site in treewalk::sites(&s.target.schema(), &s.wire) {
            if site.path.is_empty() || !bounded(&site.ty) {
                continue;
            }
            // COSE constants (kty, alg, crv) are fixed by the key type, not ranges
            if site.name.contains("cose.kty") || site.name.contains("cose.alg") || site.name.contains("cose.crv") {
                continue;
            }
            let orig = treewalk::get(&s.wire, &site.path).unwrap();
            members.insert(format!("{}{}", s.target.name(), site.name.replace(|c: char| c.is_ascii_digit(), "")));
            for (what, v) in probes(&site, orig, anchor) {
                repls.push(Repl { seed: si, path: site.path.clone(), name: site.name.clone(), value: v, what });
            }
        }
    }
    ctx.note(format!("{} distinct bounded members probed: {}", members.len(), members.iter().cloned().collect::<Vec<_>>().join(" ")));
    sweep_replacements(ctx, P, "single bounded member across its limit", "every bounded member of every seed at every length 0..=capacity+64 (anchors) or capacity-1/capacity/capacity+1 (single-member seeds) and far beyond; integers at 0, max-1, max, max+1, 2^32, 2^63, 2^64-1 and the negative counterparts", &seeds, &repls);

    // interaction: every pair of bounded members of the full anchors at {c-1, c, c+1}
    let fulls: Vec<usize> = seeds.iter().enumerate().filter(|(_, s)| s.label.ends_with(":full") || s.label.ends_with("(members reversed)")).map(|(i, _)| i).collect();
    let mut pair_cases: Vec<(usize, Repl, Repl)> = Vec::new();
    for si in fulls {
        let s = &seeds[si];
        let sites: Vec<TSite> = treewalk::sites(&s.target.schema(), &s.wire)
            .into_iter()
            .filter(|x| !x.path.is_empty() && matches!(x.ty, Ty::Bytes(Some(_)) | Ty::BytesExact(_) | Ty::Text(Some(_)) | Ty::TextSkip(_) | Ty::List(_, Some(_)) | Ty::Uint(_)))
            .collect();
        let edge = |site: &TSite| -> Vec<(String, V)> {
            let orig = treewalk::get(&s.wire, &site.path).unwrap();
            let c = match &site.ty {
                Ty::Bytes(Some(c)) | Ty::BytesExact(c) | Ty::Text(Some(c)) | Ty::TextSkip(c) => *c,
                Ty::List(_, Some(c)) => *c,
                Ty::Uint(max) => {
                    return [max.saturating_sub(1), *max, max.saturating_add(1)].iter().map(|x| (format!("uint({})", x), V::U(*x))).collect();
                }
                _ => unreachable!(),
            };
            probes(site, orig, true).into_iter().filter(|(w, _)| (c.saturating_sub(span)..=c + span).any(|n| w.ends_with(&format!("({})", n)))).collect()
        };
        for a in 0..sites.len() {
            for b in a + 1..sites.len() {
                // nested sites (one inside the other) cannot both be replaced
                if sites[b].path.starts_with(&sites[a].path) || sites[a].path.starts_with(&sites[b].path) {
                    continue;
                }
                for (wa, va) in edge(&sites[a]) {
                    for (wb, vb) in edge(&sites[b]) {
                        pair_cases.push((
                            si,
                            Repl { seed: si, path: sites[a].path.clone(), name: sites[a].name.clone(), value: va.clone(), what: wa.clone() },
                            Repl { seed: si, path: sites[b].path.clone(), name: sites[b].name.clone(), value: vb, what: wb },
                        ));
                    }
                }
            }
        }
    }
    let (pc, sr) = (&pair_cases, &seeds);
    sweep(ctx, "pairs of bounded members at their limits", pair_cases.len() as u64, "every pair of bounded members of each full anchor at {capacity-1, capacity, capacity+1} x {capacity-1, capacity, capacity+1}", move |idx, l| {
        let (si, a, b) = &pc[idx as usize];
        let s = &sr[*si];
        let wire = treewalk::replaced(&treewalk::replaced(&s.wire, &a.path, a.value.clone()), &b.path, b.value.clone());
        l.nontrivial += 1;
        let want = s.target.expect(&wire);
        l.bump(match &want {
            crate::subject::Dec::Ok(_) => "reference: accepted",
            _ => "reference: rejected",
        });
        let v = compare(P, &s.target, &wire);
        if !v.ok {
            l.fail(ctx, idx, v, || case_json(&s.target, &wire, json!({"seed": s.label, "members": [a.name, b.name], "values": [a.what, b.what]})));
        }
    });
    // limits do not depend on what other members say: every bounded member at capacity-1 /
    // capacity / capacity+1 while one other member (any type) takes each of a menu of values
    {
        let mut cases: Vec<(usize, Repl, Repl)> = Vec::new();
        for (si, s) in seeds.iter().enumerate().filter(|(_, s)| s.label.ends_with(":full") || s.label.ends_with("(members reversed)")) {
            let sites: Vec<TSite> = treewalk::sites(&s.target.schema(), &s.wire).into_iter().filter(|x| !x.path.is_empty()).collect();
            let menu = |site: &TSite| -> Vec<(String, V)> {
                match &site.ty {
                    Ty::Uint(max) => [0u64, 1, 2, 3, 4, 5, 255, *max].iter().filter(|x| **x <= *max).map(|x| (format!("uint({})", x), V::U(*x))).collect(),
                    Ty::Enum(vals) => vals.iter().map(|x| (format!("uint({})", x), V::U(*x))).collect(),
                    Ty::Bool => vec![("true".into(), V::Bool(true)), ("false".into(), V::Bool(false))],
                    Ty::Int32 => [-8i64, -7, -257, 0, 1].iter().map(|x| (format!("int({})", x), V::int(*x))).collect(),
                    Ty::Bytes(c) => [0usize, 1, 16, 32, 48, 64].iter().filter(|n| c.map_or(true, |c| **n <= c)).map(|n| (format!("bytes({})", n), V::B(fill_bytes(*n, 5)))).collect(),
                    Ty::Text(c) => [0usize, 1, 16, 64].iter().filter(|n| c.map_or(true, |c| **n <= c)).map(|n| (format!("text({})", n), V::t(&fill_text(*n, 5)))).collect(),
                    Ty::TextTrunc(_) | Ty::TextSkip(_) | Ty::Icon => [0usize, 1, 16].iter().map(|n| (format!("text({})", n), V::t(&fill_text(*n, 5)))).collect(),
                    _ => vec![],
                }
            };
            let edge = |site: &TSite| -> Vec<(String, V)> {
                let orig = treewalk::get(&s.wire, &site.path).unwrap();
                let c = match &site.ty {
                    Ty::Bytes(Some(c)) | Ty::BytesExact(c) | Ty::Text(Some(c)) | Ty::TextSkip(c) | Ty::TextTrunc(c) => *c,
                    Ty::List(_, Some(c)) => *c,
                    _ => return vec![],
                };
                probes(site, orig, true).into_iter().filter(|(w, _)| (c.saturating_sub(span)..=c + span).any(|n| w.ends_with(&format!("({})", n)))).collect()
            };
            for a in &sites {
                let ea = edge(a);
                if ea.is_empty() {
                    continue;
                }
                for b in &sites {
                    if b.path == a.path || b.path.starts_with(&a.path) || a.path.starts_with(&b.path) {
                        continue;
                    }
                    for (wb, vb) in menu(b) {
                        for (wa, va) in &ea {
                            cases.push((
                                si,
                                Repl { seed: si, path: a.path.clone(), name: a.name.clone(), value: va.clone(), what: wa.clone() },
                                Repl { seed: si, path: b.path.clone(), name: b.name.clone(), value: vb.clone(), what: wb.clone() },
                            ));
                        }
                    }
                }
            }
        }
        let (pc, sr) = (&cases, &seeds);
        sweep(ctx, "limits under every value of one other member", cases.len() as u64, "every bounded member of each full anchor at {capacity-1, capacity, capacity+1} x every other member x its menu (selectors 0..5, both booleans, every enumeration value, short strings)", move |idx, l| {
            let (si, a, b) = &pc[idx as usize];
            let s = &sr[*si];
            let wire = treewalk::replaced(&treewalk::replaced(&s.wire, &a.path, a.value.clone()), &b.path, b.value.clone());
            l.nontrivial += 1;
            l.bump("limit in context");
            let v = compare(P, &s.target, &wire);
            if !v.ok {
                l.fail(ctx, idx, v, || case_json(&s.target, &wire, json!({"seed": s.label, "members": [a.name, b.name], "values": [a.what, b.what]})));
            }
        });
    }
    // limits do not depend on the SUM of two lengths either: every pair of bounded string members of
    // each full anchor on a dense two-dimensional length grid
    {
        let mut cases: Vec<(usize, treewalk::Path, treewalk::Path, String, String, bool, bool, usize, usize)> = Vec::new();
        for (si, s) in seeds.iter().enumerate().filter(|(_, s)| s.label.ends_with(":full")) {
            let sites: Vec<TSite> = treewalk::sites(&s.target.schema(), &s.wire)
                .into_iter()
                .filter(|x| !x.path.is_empty() && matches!(x.ty, Ty::Bytes(Some(_)) | Ty::Text(Some(_)) | Ty::TextSkip(_) | Ty::TextTrunc(_)))
                .collect();
            let lens = |t: &Ty| -> Vec<usize> {
                let c = match t {
                    Ty::Bytes(Some(c)) | Ty::Text(Some(c)) | Ty::TextSkip(c) | Ty::TextTrunc(c) => *c,
                    _ => unreachable!(),
                };
                let dense = if ctx.thorough() { 140 } else { 72 };
                let mut v: Vec<usize> = (0..=c.min(dense) + 1).collect();
                v.extend([c.saturating_sub(1), c, c + 1]);
                v.sort();
                v.dedup();
                v
            };
            for a in 0..sites.len() {
                for b in a + 1..sites.len() {
                    if sites[b].path.starts_with(&sites[a].path) || sites[a].path.starts_with(&sites[b].path) {
                        continue;
                    }
                    let (ta, tb) = (matches!(sites[a].ty, Ty::Bytes(_)), matches!(sites[b].ty, Ty::Bytes(_)));
                    for la in lens(&sites[a].ty) {
                        for lb in lens(&sites[b].ty) {
                            cases.push((si, sites[a].path.clone(), sites[b].path.clone(), sites[a].name.clone(), sites[b].name.clone(), ta, tb, la, lb));
                        }
                    }
                }
            }
        }
        let (pc, sr) = (&cases, &seeds);
        sweep(ctx, "two bounded string members on a two-dimensional length grid", cases.len() as u64, "every pair of bounded byte-string / text members of each full anchor x every length 0..=min(capacity, 72)+1 (thorough 140) and capacity-1 / capacity / capacity+1 of each", move |idx, l| {
            let (si, pa, pb, na, nb, ba, bb, la, lb) = &pc[idx as usize];
            let s = &sr[*si];
            let val = |bytes: bool, n: usize, salt: usize| if bytes { V::B(fill_bytes(n, salt)) } else { V::t(&fill_text(n, salt)) };
            let wire = treewalk::replaced(&treewalk::replaced(&s.wire, pa, val(*ba, *la, 3)), pb, val(*bb, *lb, 4));
            l.nontrivial += 1;
            l.bump("length pair");
            let v = compare(P, &s.target, &wire);
            if !v.ok {
                l.fail(ctx, idx, v, || case_json(&s.target, &wire, json!({"seed": s.label, "members": [na, nb], "lengths": [la, lb]})));
            }
        });
    }
    ctx.require_outcomes(&["reference: accepted", "reference: rejected"]);
    ctx.sample(json!({"seed": "MakeCredential@0x01:full", "member": "/user/id", "values": "bytes(0) .. bytes(128), bytes(129), bytes(1256), bytes(7000)", "oracle": "accepted and delivered whole iff <= 64 bytes, else 0x12"}));
    ctx.sample(json!({"seed": "GetAssertion@0x02:full", "member": "/allowList", "values": "list(0) .. list(18), list(21), list(64)", "oracle": "accepted iff <= 10 entries"}));
}

pub fn replay(case: &Value) -> Verdict {
    replay_decode_compare(P, case)
}
