//! C13 — over-long names are cut on a character boundary; over-long icons are dropped.

use crate::core::*;
use crate::refcbor::V;
use crate::reqcheck::*;
use crate::spec::*;
use crate::subject::Dec;
use crate::treewalk::{self, Step};
use serde_json::{json, Value};

const P: &str = "C13";

/// extreme encodings of every character width
const CHARS: [char; 9] = ['\u{61}', '\u{7f}', '\u{80}', '\u{7ff}', '\u{800}', '\u{d7ff}', '\u{ffff}', '\u{10000}', '\u{10ffff}'];

/// every sequence of CHARS whose UTF-8 length is at most `max` bytes
fn windows(max: usize) -> Vec<String> {
    let mut out = vec![String::new()];
    let mut frontier = vec![String::new()];
    while !frontier.is_empty() {
        let mut next = Vec::new();
        for w in &frontier {
            for c in CHARS {
                if w.len() + c.len_utf8() <= max {
                    let mut s = w.clone();
                    s.push(c);
                    out.push(s.clone());
                    next.push(s);
                }
            }
        }
        frontier = next;
    }
    out
}

struct Slot {
    seed: usize,
    path: treewalk::Path,
    name: String,
}

/// the text members of interest in the given seeds, by specification name suffix
fn slots(seeds: &[SeedMsg], suffixes: &[&str]) -> Vec<Slot> {
    let mut out = Vec::new();
    for (si, s) in seeds.iter().enumerate() {
        for site in treewalk::sites(&s.target.schema(), &s.wire) {
            if suffixes.iter().any(|x| site.name.ends_with(x)) {
                out.push(Slot { seed: si, path: site.path.clone(), name: format!("{}{}", s.label, site.name) });
            }
        }
    }
    out
}

fn alone_seed(name: &'static str, wire: V) -> SeedMsg {
    SeedMsg { label: format!("alone:{}", name), target: Target::Alone(name), wire }
}

fn seeds() -> Vec<SeedMsg> {
    let mut v: Vec<SeedMsg> = seed_msgs(true).into_iter().filter(|s| s.label.ends_with(":full") && (s.label.starts_with("MakeCredential") || s.label.starts_with("CredentialManagement@0x0a"))).collect();
    let user = V::M(vec![(V::t("id"), V::B(vec![1, 2, 3])), (V::t("icon"), V::t("i")), (V::t("name"), V::t("n")), (V::t("displayName"), V::t("d"))]);
    let rp = V::M(vec![(V::t("id"), V::t("example.org")), (V::t("name"), V::t("n")), (V::t("icon"), V::t("i"))]);
    let rp_url = V::M(vec![(V::t("id"), V::t("example.org")), (V::t("url"), V::t("u")), (V::t("name"), V::t("n"))]);
    // the same contexts with every map's members in reverse order (names before ids, ...)
    let rev: Vec<SeedMsg> = v.iter().map(|s| SeedMsg { label: format!("{} (members reversed)", s.label), target: s.target.clone(), wire: reverse_maps(&s.wire) }).filter(|s| accepts_reordered_plain(&s.target)).collect();
    v.extend(rev);
    if accepts_reordered_plain(&Target::Alone("user")) {
        v.push(alone_seed("user", reverse_maps(&user)));
        v.last_mut().unwrap().label = "alone:user (members reversed)".into();
    }
    v.push(alone_seed("user", user));
    v.push(alone_seed("rp", rp));
    v.push(SeedMsg { label: "alone:rp(url)".into(), target: Target::Alone("rp"), wire: rp_url });
    v
}

pub fn run(ctx: &'static Ctx) {
    ctx.rule("state = (text member, context, string); the message is decoded by the real code and compared in full with the reference (longest prefix <= 64 bytes on a std char boundary; icon kept iff <= 128 bytes; rp icon discarded; ill-formed UTF-8 rejected); non-trivial = the string is longer than the capacity or contains multi-byte characters");
    let seeds = seeds();
    let name_slots = slots(&seeds, &["/name", "/displayName"]);
    let alone_names: Vec<&Slot> = name_slots.iter().filter(|s| s.name.starts_with("alone:")).collect();
    let msg_names: Vec<&Slot> = name_slots.iter().filter(|s| !s.name.starts_with("alone:")).collect();
    let wmax = if ctx.thorough() { 12 } else { 9 };
    let wins = windows(wmax);
    ctx.note(format!("{} character-width windows of <= {} bytes over {} extreme code points; {} name members ({} stand-alone)", wins.len(), wmax, CHARS.len(), name_slots.len(), alone_names.len()));
    let prefixes: Vec<usize> = (52..=66).collect();
    let tails = [0usize, 1, 5, 200];
    // (1) windows around the cut in the stand-alone entities: all prefixes x all tails
    let rad = [alone_names.len() as u64, wins.len() as u64, prefixes.len() as u64, tails.len() as u64];
    let (sr, wr) = (&seeds, &wins);
    let run_names = |name: &str, note: &str, sl: &Vec<&Slot>, tails: &'static [usize]| {
        let rad = [sl.len() as u64, wr.len() as u64, prefixes.len() as u64, tails.len() as u64];
        let prefixes = &prefixes;
        sweep(ctx, name, product(&rad), note, move |idx, l| {
            let mut d = [0u64; 4];
            unrank(idx, &rad, &mut d);
            let slot = sl[d[0] as usize];
            let mut s = "x".repeat(prefixes[d[2] as usize]);
            s.push_str(&wr[d[1] as usize]);
            s.push_str(&"y".repeat(tails[d[3] as usize]));
            let seed = &sr[slot.seed];
            let wire = treewalk::replaced(&seed.wire, &slot.path, V::t(&s));
            if s.len() > 64 {
                l.nontrivial += 1;
                l.bump("name longer than 64 bytes");
                let cut = crate::refmodel::floor_boundary(&s, 64);
                l.bump(match 64 - cut {
                    0 => "cut at 64",
                    1 => "cut at 63",
                    2 => "cut at 62",
                    _ => "cut at 61",
                });
            } else {
                l.bump("name fits");
            }
            let v = compare(P, &seed.target, &wire);
            if !v.ok {
                l.fail(ctx, idx, v, || case_json(&seed.target, &wire, json!({"member": slot.name, "prefix": prefixes[d[2] as usize], "window": wr[d[1] as usize].escape_unicode().to_string(), "tail": tails[d[3] as usize]})));
            }
        });
    };
    let _ = rad;
    run_names("names: every character-width window at every alignment (stand-alone entities)", "x^p . W . y^t with p in 52..=66, t in {0,1,5,200}, W = every sequence of extreme code points of widths 1-4 up to the window bound", &alone_names, &[0, 1, 5, 200]);
    run_names("names: every window inside MakeCredential and CredentialManagement", "same windows and alignments, t in {0, 5}", &msg_names, &[0, 5]);

    // (1b) characters with special roles (joiners, variation selectors, combining marks, BOM,
    // directional marks, noncharacters) next to each other and to every width, at every alignment
    let specials: [char; 10] = ['\u{200d}', '\u{fe0f}', '\u{301}', '\u{feff}', '\u{200f}', '\u{fffe}', '\u{2764}', '\u{1f525}', '\u{1f3f3}', '\u{e0067}'];
    let mut pool: Vec<char> = CHARS.to_vec();
    pool.extend(specials);
    let mut swins: Vec<String> = Vec::new();
    for a in &pool {
        for b in &specials {
            for c in &pool {
                let mut w = String::new();
                w.push(*a);
                w.push(*b);
                w.push(*c);
                swins.push(w.clone());
                w.push(*b);
                swins.push(w);
            }
        }
    }
    let all_names2: Vec<&Slot> = name_slots.iter().collect();
    let rad1b = [all_names2.len() as u64, swins.len() as u64, 16, 2];
    let swr = &swins;
    sweep(ctx, "names: special-role characters around the cut", product(&rad1b), "x^p . (a s b [s]) . y^t with s a joiner / variation selector / combining mark / BOM / directional mark / noncharacter / emoji, a and b from the whole pool, p in 50..=65, t in {0, 9}, every name member", move |idx, l| {
        let mut d = [0u64; 4];
        unrank(idx, &rad1b, &mut d);
        let slot = all_names2[d[0] as usize];
        let mut s = "x".repeat(50 + d[2] as usize);
        s.push_str(&swr[d[1] as usize]);
        s.push_str(&"y".repeat(if d[3] == 0 { 0 } else { 9 }));
        let seed = &sr[slot.seed];
        let wire = treewalk::replaced(&seed.wire, &slot.path, V::t(&s));
        if s.len() > 64 {
            l.nontrivial += 1;
        }
        l.bump(if s.len() > 64 { "name longer than 64 bytes" } else { "name fits" });
        let v = compare(P, &seed.target, &wire);
        if !v.ok {
            l.fail(ctx, idx, v, || case_json(&seed.target, &wire, json!({"member": slot.name, "prefix": 50 + d[2], "window": swr[d[1] as usize].escape_unicode().to_string()})));
        }
    });

    // (1c) blank, invisible and punctuation characters at the very end, the very start and at every
    // position around the cut, for every total length around the capacity (a name that exactly
    // fits must come back unchanged, whatever its last character is)
    {
        let marks: Vec<String> = [" ", "\t", "\n", "\r", "\r\n", "\n\r", "\u{a0}", "\u{2003}", "\u{3000}", "\u{200b}", "\u{200d}", "\u{feff}", ".", "/", "\u{0}", "\u{7f}", "\u{85}", "\u{1b}[", "\\n", "%0"].iter().map(|s| s.to_string()).collect();
        let mut texts: Vec<String> = Vec::new();
        for c in &marks {
            let cl = c.len();
            for total in 56..=72usize {
                texts.push(format!("{}{}", "x".repeat(total - cl), c));
                texts.push(format!("{}{}", c, "x".repeat(total - cl)));
                texts.push(format!("{}{}{}", c, "x".repeat(total - 2 * cl), c));
                for p in 58..=66usize {
                    if p + cl <= total {
                        texts.push(format!("{}{}{}", "x".repeat(p), c, "y".repeat(total - p - cl)));
                        if p + 2 * cl <= total {
                            texts.push(format!("{}{}{}{}", "x".repeat(p), c, c, "y".repeat(total - p - 2 * cl)));
                        }
                    }
                }
            }
        }
        texts.sort();
        texts.dedup();
        let slots_all: Vec<&Slot> = name_slots.iter().collect();
        let (tr, n) = (&texts, slots_all.len() as u64);
        sweep(ctx, "names: blank and invisible characters at the ends and around the cut", n * texts.len() as u64, "20 marks (space, tab, LF, CR, CR LF, LF CR, NBSP, EM SPACE, IDEOGRAPHIC SPACE, ZWSP, ZWJ, BOM, full stop, slash, NUL, DEL, NEL, ESC [, backslash n, percent 0) at the end, at the start, at both ends and at every offset 58..=66 (single and doubled) of names of 56..=72 bytes, every name member", move |idx, l| {
            let slot = slots_all[(idx % n) as usize];
            let s = &tr[(idx / n) as usize];
            let seed = &sr[slot.seed];
            let wire = treewalk::replaced(&seed.wire, &slot.path, V::t(s));
            if s.len() > 64 {
                l.nontrivial += 1;
            }
            l.bump(if s.len() > 64 { "name longer than 64 bytes" } else { "name fits" });
            let v = compare(P, &seed.target, &wire);
            if !v.ok {
                l.fail(ctx, idx, v, || case_json(&seed.target, &wire, json!({"member": slot.name, "text": s.escape_unicode().to_string()})));
            }
        });
    }

    // (1d) name and displayName together: both over-long, every pair of short windows at every pair
    // of offsets around the cut, total lengths equal and different by 0..=2 (each member is cut on
    // its own boundary, whatever the other one looks like)
    {
        let small = windows(4);
        let user_t = Target::Alone("user");
        let mut cases: Vec<(usize, usize, usize, usize, usize)> = Vec::new(); // (w1, w2, p1, p2, extra)
        for w1 in 0..small.len() {
            for w2 in 0..small.len() {
                for p1 in 60..=64usize {
                    for p2 in 60..=64usize {
                        for extra in 0..=2usize {
                            cases.push((w1, w2, p1, p2, extra));
                        }
                    }
                }
            }
        }
        let (cr, sm, ut) = (&cases, &small, &user_t);
        sweep(ctx, "names: name x displayName, both over-long", cases.len() as u64, "stand-alone user entity: name = x^p1 . w1 . y*, displayName = x^p2 . w2 . y* padded to 72 and 72 + {0, 1, 2} bytes, every pair of character windows of <= 4 bytes, p1, p2 in 60..=64", move |idx, l| {
            let (w1, w2, p1, p2, extra) = cr[idx as usize];
            let mk = |p: usize, w: &str, total: usize| {
                let mut t = "x".repeat(p);
                t.push_str(w);
                while t.len() < total {
                    t.push('y');
                }
                t
            };
            let name = mk(p1, &sm[w1], 72);
            let dn = mk(p2, &sm[w2], 72 + extra);
            let wire = V::M(vec![(V::t("id"), V::B(vec![1, 2, 3])), (V::t("name"), V::t(&name)), (V::t("displayName"), V::t(&dn))]);
            l.nontrivial += 1;
            l.bump("name longer than 64 bytes");
            let v = compare(P, ut, &wire);
            if !v.ok {
                l.fail(ctx, idx, v, || case_json(ut, &wire, json!({"name": name.escape_unicode().to_string(), "displayName": dn.escape_unicode().to_string()})));
            }
        });
    }

    // (2) every total length 0..=300 of a single repeated width, all name members
    let all_names: Vec<&Slot> = name_slots.iter().collect();
    let rad2 = [all_names.len() as u64, 301, 4];
    sweep(ctx, "names: every length 0..=300 of one repeated character width", product(&rad2), "widths 1-4", |idx, l| {
        let mut d = [0u64; 3];
        unrank(idx, &rad2, &mut d);
        let slot = all_names[d[0] as usize];
        let s = crate::refmodel::fill_wide(d[1] as usize, d[2] as usize + 1);
        let seed = &sr[slot.seed];
        let wire = treewalk::replaced(&seed.wire, &slot.path, V::t(&s));
        l.nontrivial += 1;
        l.bump(if s.len() > 64 { "name longer than 64 bytes" } else { "name fits" });
        let v = compare(P, &seed.target, &wire);
        if !v.ok {
            l.fail(ctx, idx, v, || case_json(&seed.target, &wire, json!({"member": slot.name, "length": d[1], "width": d[2] + 1})));
        }
    });

    // (3) icons: every length 0..=300 in 1- and 3-byte characters, plus message-filling ones
    let icon_slots = slots(&seeds, &["/icon", "/url"]);
    let mut lens: Vec<usize> = (0..=300).collect();
    lens.extend([1000, 4000, 6500]);
    let rad3 = [icon_slots.len() as u64, lens.len() as u64, 2];
    let (ir, lr) = (&icon_slots, &lens);
    sweep(ctx, "icons: every length 0..=300 and message-filling", product(&rad3), "user icon, rp icon, rp url (legacy alias) in every context; 1-byte and 3-byte characters", move |idx, l| {
        let mut d = [0u64; 3];
        unrank(idx, &rad3, &mut d);
        let slot = &ir[d[0] as usize];
        let s = crate::refmodel::fill_wide(lr[d[1] as usize], if d[2] == 0 { 1 } else { 3 });
        let seed = &sr[slot.seed];
        let wire = treewalk::replaced(&seed.wire, &slot.path, V::t(&s));
        if seed.target.bytes(&wire).len() > MAX_MSG {
            l.bump("skipped: over message limit");
            return;
        }
        l.nontrivial += 1;
        let user = slot.name.contains("user");
        l.bump(match (user, s.len() > 128) {
            (true, true) => "user icon longer than 128 bytes",
            (true, false) => "user icon fits",
            _ => "rp icon",
        });
        let v = compare(P, &seed.target, &wire);
        if !v.ok {
            l.fail(ctx, idx, v, || case_json(&seed.target, &wire, json!({"member": slot.name, "length": lr[d[1] as usize]})));
        }
    });

    // (4) ill-formed UTF-8 at every position
    let text_slots = slots(&seeds, &["/name", "/displayName", "/icon", "/url", "/rp/id"]);
    let bad: [&[u8]; 9] = [&[0x80], &[0xbf], &[0xc0, 0x80], &[0xc3], &[0xe2, 0x82], &[0xed, 0xa0, 0x80], &[0xf0, 0x9f, 0x98], &[0xf5], &[0xff]];
    let ns = [1usize, 63, 64, 65, 128, 129];
    let mut cases: Vec<(usize, usize, usize, usize)> = Vec::new();
    for (si, _) in text_slots.iter().enumerate() {
        for (ni, n) in ns.iter().enumerate() {
            for pos in 0..=*n {
                for bi in 0..bad.len() {
                    cases.push((si, ni, pos, bi));
                }
            }
        }
    }
    let (cr, tr) = (&cases, &text_slots);
    sweep(ctx, "ill-formed UTF-8 at every position", cases.len() as u64, "9 ill-formed patterns at every position of ASCII text of 6 lengths in every text member", move |idx, l| {
        let (si, ni, pos, bi) = cr[idx as usize];
        let slot = &tr[si];
        let mut bytes = vec![b'a'; ns[ni]];
        for (k, x) in bad[bi].iter().enumerate() {
            bytes.insert(pos + k, *x);
        }
        let seed = &sr[slot.seed];
        let wire = treewalk::replaced(&seed.wire, &slot.path, V::T(bytes));
        l.nontrivial += 1;
        let want = seed.target.expect(&wire);
        if want != Dec::Err(ST_INVALID_CBOR) {
            machinery_panic("reference decoder accepts ill-formed UTF-8");
        }
        l.bump("ill-formed text");
        let v = compare(P, &seed.target, &wire);
        if !v.ok {
            l.fail(ctx, idx, v, || case_json(&seed.target, &wire, json!({"member": slot.name, "length": ns[ni], "position": pos, "pattern": crate::refcbor::hex(bad[bi])})));
        }
    });
    ctx.require_outcomes(&["name fits", "name longer than 64 bytes", "cut at 64", "cut at 63", "cut at 62", "cut at 61", "user icon fits", "user icon longer than 128 bytes", "rp icon", "ill-formed text"]);
    ctx.sample(json!({"member": "alone:user/name", "string": "x^61 + U+10FFFF + y^5", "oracle": "cut at 61 (the 4-byte character straddles offset 64)"}));
    ctx.sample(json!({"member": "MakeCredential user.icon", "length": 129, "oracle": "accepted, icon reported absent"}));
}

pub fn replay(case: &Value) -> Verdict {
    replay_decode_compare(P, case)
}
