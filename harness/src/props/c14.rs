//! C14 — algorithm and attestation-format lists are filtered in order, never rejected.

use crate::core::*;
use crate::engine_sr::{explore, Space};
use crate::refcbor::{encode, hex, V};
use crate::refmodel::{fill_text, param, Plan, Side};
use crate::reqcheck::*;
use crate::spec::*;
use crate::subject::Dec;
use crate::treewalk::{self, Path, Step};
use serde_json::{json, Value};
use std::sync::Arc;

const P: &str = "C14";

#[derive(Clone)]
struct Ctxt {
    label: String,
    target: Target,
    wire: V,
    path: Path,
}

/// list space: state = sequence of alphabet letters, transition = append one
struct Lists {
    name: String,
    alphabet: Arc<Vec<V>>,
    max_len: usize,
    contexts: Arc<Vec<Ctxt>>,
}

impl Lists {
    fn list(&self, s: &[u8]) -> V {
        V::A(s.iter().map(|i| self.alphabet[*i as usize].clone()).collect())
    }
}

impl Space for Lists {
    type S = Vec<u8>;
    type A = u8;
    fn name(&self) -> String {
        self.name.clone()
    }
    fn init(&self) -> Vec<Vec<u8>> {
        vec![vec![]]
    }
    fn actions(&self, s: &Vec<u8>, out: &mut Vec<u8>) {
        if s.len() < self.max_len {
            out.extend(0..self.alphabet.len() as u8);
        }
    }
    fn next(&self, s: &Vec<u8>, a: &u8) -> Option<Vec<u8>> {
        let mut n = s.clone();
        n.push(*a);
        Some(n)
    }
    fn check(&self, s: &Vec<u8>) -> Verdict {
        let list = self.list(s);
        for c in self.contexts.iter() {
            let wire = if c.path.is_empty() { list.clone() } else { treewalk::replaced(&c.wire, &c.path, list.clone()) };
            let want = c.target.expect(&wire);
            if !matches!(want, Dec::Ok(_)) {
                machinery_panic(&format!("C14: reference rejects a list: {:?}", list));
            }
            let v = compare(P, &c.target, &wire);
            if !v.ok {
                return v;
            }
            // the same list with the members of every entry sent in the other order
            let rlist = reverse_maps(&list);
            if rlist != list && accepts_reordered_entries() {
                let wire = if c.path.is_empty() { rlist.clone() } else { treewalk::replaced(&c.wire, &c.path, rlist.clone()) };
                let mut v = compare(P, &c.target, &wire);
                if !v.ok {
                    v.signature.push_str("|entry-members-reversed");
                    return v;
                }
            }
        }
        Verdict::pass()
    }
    fn case(&self, s: &Vec<u8>) -> Value {
        let list = self.list(s);
        for c in self.contexts.iter() {
            let wire = if c.path.is_empty() { list.clone() } else { treewalk::replaced(&c.wire, &c.path, list.clone()) };
            if !compare(P, &c.target, &wire).ok {
                return case_json(&c.target, &wire, json!({"context": c.label, "list": format!("{:?}", list)}));
            }
            let rlist = reverse_maps(&list);
            let rwire = if c.path.is_empty() { rlist.clone() } else { treewalk::replaced(&c.wire, &c.path, rlist.clone()) };
            if accepts_reordered_entries() && !compare(P, &c.target, &rwire).ok {
                return case_json(&c.target, &rwire, json!({"context": c.label, "list": format!("{:?}", rlist), "entry members": "reversed"}));
            }
        }
        json!({"kind": "none"})
    }
    fn nontrivial(&self, s: &Vec<u8>) -> bool {
        s.len() > 1
    }
}

fn contexts(member: &str, alone: Option<&'static str>) -> Vec<Ctxt> {
    let mut out = Vec::new();
    for s in seed_msgs(true) {
        if !s.label.ends_with(":full") {
            continue;
        }
        for site in treewalk::sites(&s.target.schema(), &s.wire) {
            if site.name == member {
                out.push(Ctxt { label: format!("{}{}", s.label, member), target: s.target.clone(), wire: s.wire.clone(), path: site.path.clone() });
                // the same message with the list's top-level member sent first instead of in key
                // order (accepted by the decoder; the list is then followed by other members, so
                // an element left unread would be taken for the next key)
                if let (V::M(m), Some(Step::Key(k))) = (&s.wire, site.path.first()) {
                    let mut m = m.clone();
                    if let Some(pos) = m.iter().position(|(k2, _)| k2 == k) {
                        let e = m.remove(pos);
                        m.insert(0, e);
                        // probe with the list emptied: the probe must not depend on what the list holds
                        let mut probe = m.clone();
                        probe[0].1 = V::A(vec![]);
                        if !accepts_reordered(&s.target, &V::M(probe)) {
                            continue; // a decoder that insists on canonical order: nothing to assert
                        }
                        out.push(Ctxt { label: format!("{}{} (sent first)", s.label, member), target: s.target.clone(), wire: V::M(m), path: site.path.clone() });
                    }
                }
            }
        }
    }
    if let Some(a) = alone {
        out.push(Ctxt { label: format!("alone:{}", a), target: Target::Alone(a), wire: V::A(vec![]), path: vec![] });
    }
    out
}

/// GetInfo `algorithms`: decoded through the bidirectional GetInfo response; the re-encoded list
/// must be the filtered one
fn getinfo_algorithms(list: &V) -> Verdict {
    let wire = V::M(vec![
        (V::U(1), V::A(vec![V::t("FIDO_2_0")])),
        (V::U(3), V::B(vec![0; 16])),
        (V::U(10), list.clone()),
    ]);
    let want_list = match crate::refmodel::decode(&Ty::Params, list) {
        Ok(Some(V::A(algs))) => V::A(algs.iter().map(|a| param(a.as_i128().unwrap() as i64, PUBLIC_KEY)).collect()),
        other => machinery_panic(&format!("reference rejects {:?}: {:?}", list, other)),
    };
    let want = V::M(vec![(V::U(1), V::A(vec![V::t("FIDO_2_0")])), (V::U(3), V::B(vec![0; 16])), (V::U(10), want_list)]);
    match super::c15::roundtrip("getInfo.Response", &encode(&wire)) {
        super::c15::RT::Done { bytes, .. } if bytes == encode(&want) => Verdict::pass(),
        other => Verdict::fail(format!("{}|GetInfo.algorithms|filtered-list", P), hex(&encode(&want)), format!("{:?}", other)),
    }
}

pub fn run(ctx: &'static Ctx) {
    ctx.rule("state = list built by appending one entry at a time; every list is decoded in every context by the real code and compared with filter(known).take(2) in order (parameters) / known formats in order + unknown flag (formats); non-trivial = at least two entries");
    // parameters
    // letters 0..4 are the property's alphabet; letter 4 is an unknown type string that fills the
    // 32-byte capacity of the type member (any shorter capacity would reject the whole list)
    let mut alpha = vec![param(-7, PUBLIC_KEY), param(-8, PUBLIC_KEY), param(-257, PUBLIC_KEY), param(-7, "private-key"), param(-8, &fill_text(32, 1)), param(-7, "Public-Key")];
    let mut max_len = 6;
    if ctx.thorough() {
        alpha.extend([param(i32::MIN as i64, PUBLIC_KEY), param(i32::MAX as i64, PUBLIC_KEY), param(-7, &fill_text(17, 2))]);
        max_len = 6;
    }
    let n = alpha.len() as u64;
    let expect: u64 = (0..=max_len as u32).map(|k| n.pow(k)).sum();
    let pctx = contexts("/pubKeyCredParams", Some("filteredParams"));
    ctx.note(format!("parameter contexts: {}", pctx.iter().map(|c| c.label.clone()).collect::<Vec<_>>().join(", ")));
    let lists = Lists { name: format!("parameter lists of length <= {} over {} letters", max_len, n), alphabet: Arc::new(alpha.clone()), max_len, contexts: Arc::new(pctx.clone()) };
    explore(ctx, lists, Some(expect), "complete: every list over {ES256, EdDSA, unknown algorithm, known algorithm with unknown type, ...}");

    // GetInfo algorithms over the same lists (shorter bound)
    let glen = 5;
    let gtotal: u64 = (0..=glen as u32).map(|k| 4u64.pow(k)).sum();
    let a4: Vec<V> = alpha[..4].to_vec(); // GetInfo lists use the first four letters
    sweep(ctx, "GetInfo algorithms lists", gtotal, "every list of length <= 5 over the 4-letter alphabet as GetInfo member 0x0A, decoded and re-encoded", |idx, l| {
        // unrank: lists ordered by length then lexicographic
        let mut r = idx;
        let mut len = 0u32;
        while r >= 4u64.pow(len) {
            r -= 4u64.pow(len);
            len += 1;
        }
        let mut items = Vec::new();
        for k in (0..len).rev() {
            items.push(a4[((r / 4u64.pow(k)) % 4) as usize].clone());
        }
        let list = V::A(items);
        if len > 1 {
            l.nontrivial += 1;
        }
        let v = getinfo_algorithms(&list);
        l.bump("GetInfo list");
        if !v.ok {
            l.fail(ctx, idx, v, || json!({"kind": "getinfo-algorithms", "list": hex(&encode(&list))}));
        }
    });

    // long lists: known entries at every pair of positions among unknown ones; periodic patterns
    let mut long: Vec<(String, V)> = Vec::new();
    for n in [12usize, 13, 16, 17, 64] {
        for i in 0..n {
            for j in 0..n {
                if i == j {
                    continue;
                }
                // ES256 at i, EdDSA at j (both orders arise since i and j range freely)
                let mut items: Vec<V> = (0..n).map(|k| param(-300 - k as i64, PUBLIC_KEY)).collect();
                items[i] = param(-7, PUBLIC_KEY);
                items[j] = param(-8, PUBLIC_KEY);
                long.push((format!("n={} ES256@{} EdDSA@{}", n, i, j), V::A(items)));
            }
            let mut items: Vec<V> = (0..n).map(|k| param(-300 - k as i64, PUBLIC_KEY)).collect();
            items[i] = param(-8, PUBLIC_KEY);
            long.push((format!("n={} EdDSA@{}", n, i), V::A(items)));
        }
        for p in 0..64usize {
            let pat = [p % 4, (p / 4) % 4, (p / 16) % 4];
            long.push((format!("n={} pattern {:?}", n, pat), V::A((0..n).map(|k| alpha[pat[k % 3]].clone()).collect())));
        }
    }
    // entry counts across the 23/24 and 255/256 array-head boundaries (a count narrowed to one byte, a cap on the
    // entries looked at): known entries at the very end, at both ends, as the last two, and none at all
    for n in [23usize, 24, 25, 254, 255, 256, 257, 280] {
        let base = |n: usize| -> Vec<V> { (0..n).map(|k| param(-300 - k as i64, PUBLIC_KEY)).collect() };
        let mut items = base(n);
        long.push((format!("n={} no known entry", n), V::A(items.clone())));
        items[n - 1] = param(-7, PUBLIC_KEY);
        long.push((format!("n={} ES256 last", n), V::A(items.clone())));
        items[0] = param(-8, PUBLIC_KEY);
        long.push((format!("n={} EdDSA first, ES256 last", n), V::A(items)));
        let mut items = base(n);
        items[n - 2] = param(-8, PUBLIC_KEY);
        items[n - 1] = param(-7, PUBLIC_KEY);
        long.push((format!("n={} EdDSA, ES256 as the last two", n), V::A(items)));
    }
    // several filtered-out entries with identifiers of large magnitude (anything accumulated over them)
    for ty in ["x", "private-key", ""] {
        for (a, b) in [(1i64 << 30, 1i64 << 30), (i32::MAX as i64, i32::MAX as i64), (i32::MIN as i64, i32::MIN as i64), (i32::MIN as i64, -1), (i32::MAX as i64, 1), ((1 << 30) + 7, (1 << 30) - 7)] {
            long.push((format!("two filtered entries {} and {} of type {:?}", a, b, ty), V::A(vec![param(a, ty), param(-7, PUBLIC_KEY), param(b, ty), param(-8, PUBLIC_KEY)])));
            long.push((format!("three filtered entries {} {} {} of type {:?}", a, b, a, ty), V::A(vec![param(a, ty), param(b, ty), param(a, ty), param(-8, PUBLIC_KEY)])));
        }
    }
    {
        use crate::refmodel::REGISTERED_ALGS;
        long.push(("all registered algorithms".into(), V::A(REGISTERED_ALGS.iter().map(|a| param(*a, PUBLIC_KEY)).collect())));
        long.push(("all registered algorithms, reversed".into(), V::A(REGISTERED_ALGS.iter().rev().map(|a| param(*a, PUBLIC_KEY)).collect())));
        for a in REGISTERED_ALGS {
            long.push((format!("[{}, ES256]", a), V::A(vec![param(a, PUBLIC_KEY), param(-7, PUBLIC_KEY)])));
            long.push((format!("[EdDSA, {}, ES256, {}]", a, a), V::A(vec![param(-8, PUBLIC_KEY), param(a, PUBLIC_KEY), param(-7, PUBLIC_KEY), param(a, PUBLIC_KEY)])));
        }
    }
    {
        let rev: Vec<(String, V)> = long.iter().map(|(w, l)| (format!("{} (entry members reversed)", w), reverse_maps(l))).collect();
        if accepts_reordered_entries() {
            long.extend(rev);
        }
        // unknown entries carrying extra members, in both member orders
        for extra in [V::U(0), V::t("x"), V::A(vec![V::U(1), V::U(2)]), V::M(vec![(V::t("a"), V::U(1))])] {
            let e = |alg: i64, ty: &str| V::M(vec![(V::t("alg"), V::int(alg)), (V::t("type"), V::t(ty)), (V::t("zzextra"), extra.clone())]);
            let l = V::A(vec![e(-8, "private-key"), e(-7, PUBLIC_KEY), e(-257, PUBLIC_KEY), e(-8, PUBLIC_KEY)]);
            long.push((format!("entries with an extra member {:?}", extra), l.clone()));
            if accepts_reordered_entries() {
                long.push((format!("entries with an extra member {:?} (entry members reversed)", extra), reverse_maps(&l)));
            }
        }
    }
    let (lr, pr) = (&long, &pctx);
    sweep(ctx, "long parameter lists", (long.len() * pctx.len()) as u64, "lists of 12, 13, 16, 17 and 64 entries: unknown algorithms with the known ones at every ordered pair of positions and every single position; every 3-letter pattern repeated; lists of 23..=25 and 254..=280 entries (array-head boundaries) with the known entries last, at both ends, as the last two, or absent", move |idx, l| {
        let (what, list) = &lr[(idx as usize) / pr.len()];
        let c = &pr[(idx as usize) % pr.len()];
        let wire = if c.path.is_empty() { list.clone() } else { treewalk::replaced(&c.wire, &c.path, list.clone()) };
        l.nontrivial += 1;
        l.bump("long list");
        let v = compare(P, &c.target, &wire);
        if !v.ok {
            l.fail(ctx, idx, v, || case_json(&c.target, &wire, json!({"context": c.label, "list": what})));
        }
    });

    // the type string: every single-character edit, case flip, prefix / extension, and control- or
    // blank-padded variant of "public-key" must be treated as an unknown type (entry dropped)
    {
        let base: Vec<char> = PUBLIC_KEY.chars().collect();
        let printable: Vec<char> = (0x20u8..0x7f).map(|b| b as char).collect();
        let mut names: Vec<String> = Vec::new();
        for i in 0..base.len() {
            let mut d = base.clone();
            d.remove(i);
            names.push(d.iter().collect());
            names.push(base[..i].iter().collect());
            let mut f = base.clone();
            f[i] = if f[i].is_ascii_lowercase() { f[i].to_ascii_uppercase() } else { f[i] };
            names.push(f.iter().collect());
            for p in &printable {
                let mut x = base.clone();
                x[i] = *p;
                names.push(x.iter().collect());
            }
        }
        for i in 0..=base.len() {
            for p in printable.iter().chain(['\u{0}', '\t', '\n', '\u{a0}', '\u{feff}', '\u{e9}'].iter()) {
                let mut x = base.clone();
                x.insert(i, *p);
                names.push(x.iter().collect());
            }
        }
        for suffix in ["\u{0}\u{0}", "  ", "-key", "public-key"] {
            names.push(format!("{}{}", PUBLIC_KEY, suffix));
        }
        // same length and the same first k / last k characters, everything between replaced
        for k in 1..=4usize {
            for fill in ['x', '-', 'k'] {
                let mut x = base.clone();
                for c in x.iter_mut().take(base.len() - k).skip(k) {
                    *c = fill;
                }
                names.push(x.iter().collect());
            }
        }
        names.push("pay-by-key".into());
        names.push("private-key".into());
        names.push("public_key".into());
        names.sort();
        names.dedup();
        names.retain(|n| n != PUBLIC_KEY && n.len() <= 32);
        let (nr, pr2) = (&names, &pctx);
        sweep(ctx, "near-miss type strings", (names.len() * pctx.len() * 2) as u64, "[{alg: EdDSA, type: <near miss>}, {alg: ES256, type: public-key}] and [{ES256, public-key}, {EdDSA, <near miss>}, {EdDSA, public-key}] for every 1-edit neighbour, padded variant and same-outline variant of the type string", move |idx, l| {
            let second_form = idx % 2 == 1;
            let idx = idx / 2;
            let name = &nr[(idx as usize) / pr2.len()];
            let c = &pr2[(idx as usize) % pr2.len()];
            let list = if second_form { V::A(vec![param(-7, PUBLIC_KEY), param(-8, name), param(-8, PUBLIC_KEY)]) } else { V::A(vec![param(-8, name), param(-7, PUBLIC_KEY)]) };
            let wire = if c.path.is_empty() { list.clone() } else { treewalk::replaced(&c.wire, &c.path, list.clone()) };
            l.nontrivial += 1;
            l.bump("near-miss type");
            let v = compare(P, &c.target, &wire);
            if !v.ok {
                l.fail(ctx, idx, v, || case_json(&c.target, &wire, json!({"context": c.label, "type": name.escape_unicode().to_string()})));
            }
        });
    }

    // algorithm identifiers outside the signed 32-bit range must never be taken for a known one
    // (wrapping): the reference rejects such a request; it must not yield a phantom ES256 / EdDSA
    {
        let wild: Vec<V> = vec![V::U((1 << 32) - 7), V::U((1 << 32) - 8), V::N((1u64 << 32) + 6), V::N((1u64 << 32) + 7), V::U(1 << 31), V::U((1 << 63) - 7), V::U(u64::MAX - 6), V::U(u64::MAX - 7), V::N(u64::MAX - 7)];
        let mut lists: Vec<(String, V)> = Vec::new();
        for w in &wild {
            let entry = V::M(vec![(V::t("alg"), w.clone()), (V::t("type"), V::t(PUBLIC_KEY))]);
            for before in 0..=2usize {
                let mut items: Vec<V> = (0..before).map(|i| param(if i == 0 { -8 } else { -7 }, PUBLIC_KEY)).collect();
                items.push(entry.clone());
                items.push(param(-8, PUBLIC_KEY));
                lists.push((format!("alg {:?} after {} known entries", w, before), V::A(items)));
            }
        }
        let (lr2, pr3) = (&lists, &pctx);
        sweep(ctx, "out-of-range algorithm identifiers", (lists.len() * pctx.len()) as u64, "identifiers congruent to -7 / -8 modulo 2^32 or 2^64 and other values outside the signed 32-bit range, after 0..=2 known entries", move |idx, l| {
            let (what, list) = &lr2[(idx as usize) / pr3.len()];
            let c = &pr3[(idx as usize) % pr3.len()];
            let wire = if c.path.is_empty() { list.clone() } else { treewalk::replaced(&c.wire, &c.path, list.clone()) };
            l.nontrivial += 1;
            l.bump("out-of-range algorithm");
            let v = compare(P, &c.target, &wire);
            if !v.ok {
                l.fail(ctx, idx, v, || case_json(&c.target, &wire, json!({"context": c.label, "list": what})));
            }
        });
    }

    // identifiers that equal a known one only after truncation to a narrower integer: every value
    // congruent to -7 / -8 modulo 2^8 (|x| < 2^24) or modulo 2^16 (whole range), every |x| <= 2^17;
    // thorough: the whole signed 32-bit range
    {
        let alone = Target::Alone("filteredParams");
        let one = |x: i64, l: &mut Local, idx: u64| {
            let list = V::A(vec![param(x, PUBLIC_KEY), param(-8, PUBLIC_KEY)]);
            l.nontrivial += 1;
            l.bump("algorithm identifier");
            let v = compare(P, &alone, &list);
            if !v.ok {
                l.fail(ctx, idx, v, || case_json(&alone, &list, json!({"context": "alone:filteredParams", "list": format!("[{}, EdDSA]", x)})));
            }
        };
        // the filter does not depend on a feature: the complete range runs in two configurations
        if ctx.thorough() && matches!(crate::cfg_name(), "cfg-000" | "cfg-111") {
            sweep(ctx, "every 32-bit algorithm identifier", 1u64 << 32, "complete: [{alg: x, type: public-key}, EdDSA] for every x in the signed 32-bit range, stand-alone list", |idx, l| one(idx as i64 + i32::MIN as i64, l, idx));
        } else {
            let small = (1u64 << 18) + 1;
            let m16 = 2u64 << 16;
            let m8 = 2u64 << 17;
            sweep(ctx, "algorithm identifiers around truncation aliases", small + m16 + m8, "[{alg: x, type: public-key}, EdDSA] for every |x| <= 2^17, every x = -7 / -8 mod 2^16 in the signed 32-bit range, every x = -7 / -8 mod 2^8 with |x| < 2^24", |idx, l| {
                let x: i64 = if idx < small {
                    idx as i64 - (1 << 17)
                } else if idx < small + m16 {
                    let q = idx - small;
                    ((q / 2) as i64 - (1 << 15)) * 65536 - 7 - (q % 2) as i64
                } else {
                    let q = idx - small - m16;
                    ((q / 2) as i64 - (1 << 16)) * 256 - 7 - (q % 2) as i64
                };
                if x < i32::MIN as i64 || x > i32::MAX as i64 {
                    return;
                }
                one(x, l, idx)
            });
        }
    }

    // attestation formats
    // the two supported formats, the other registered WebAuthn attestation format identifiers that
    // a platform may list, the empty string and a case variant
    let falpha = vec![V::t("packed"), V::t("none"), V::t("tpm"), V::t(""), V::t("Packed"), V::t("fido-u2f"), V::t("android-key"), V::t("apple")];
    let fmax = if ctx.thorough() { 6 } else { 5 };
    let fexpect: u64 = (0..=fmax as u32).map(|k| 8u64.pow(k)).sum();
    let fctx = contexts("/attestationFormatsPreference", Some("formatsPreference"));
    ctx.note(format!("format contexts: {}", fctx.iter().map(|c| c.label.clone()).collect::<Vec<_>>().join(", ")));
    explore(
        ctx,
        Lists { name: format!("attestation format lists of length <= {} over 8 letters", fmax), alphabet: Arc::new(falpha), max_len: fmax, contexts: Arc::new(fctx) },
        Some(fexpect),
        "complete: every list over {packed, none, tpm, \"\", Packed, fido-u2f, android-key, apple} in MakeCredential, GetAssertion and stand-alone",
    );
    // long format lists: unknown names with the known ones at every ordered pair of positions,
    // and lists long enough to cross 8-bit counters; unknown names up to 300 bytes
    let fctx2 = contexts("/attestationFormatsPreference", Some("formatsPreference"));
    let mut flong: Vec<(String, V)> = Vec::new();
    for n in [12usize, 13, 64] {
        for i in 0..n {
            for j in 0..n {
                if i != j {
                    let mut items: Vec<V> = (0..n).map(|k| V::t(&format!("fmt{}", k))).collect();
                    items[i] = V::t("packed");
                    items[j] = V::t("none");
                    flong.push((format!("n={} packed@{} none@{}", n, i, j), V::A(items)));
                }
            }
        }
    }
    for n in [254usize, 255, 256, 257, 300, 1000] {
        flong.push((format!("n={} all unknown", n), V::A((0..n).map(|_| V::t("t")).collect())));
        let mut items: Vec<V> = (0..n).map(|_| V::t("t")).collect();
        items[n - 1] = V::t("none");
        flong.push((format!("n={} unknown then none", n), V::A(items)));
        let mut items: Vec<V> = (0..n).map(|_| V::t("packed")).collect();
        items[n / 2] = V::t("tpm");
        flong.push((format!("n={} packed with one tpm", n), V::A(items)));
    }
    for len in [31usize, 32, 33, 64, 255, 256, 300] {
        flong.push((format!("unknown name of {} bytes", len), V::A(vec![V::t("packed"), V::t(&fill_text(len, 7)), V::t("none")])));
        flong.push((format!("unknown wide name of {} bytes", len), V::A(vec![V::t(&crate::refmodel::fill_wide(len, 2)), V::t("none")])));
    }
    // unknown names with a multi-byte character lying across every offset 8..=40 and 60..=68
    for width in [2usize, 3, 4] {
        for off in (8usize..=40).chain(60..=68) {
            for k in 1..width {
                let mut s = "u".repeat(off - k);
                s.push_str(&crate::refmodel::fill_wide(width, width));
                s.push_str("tail");
                flong.push((format!("unknown name with a {}-byte character across offset {}", width, off), V::A(vec![V::t("none"), V::t(&s), V::t("packed")])));
            }
        }
    }
    // known names continued by a character of every width (prefix of an unknown name)
    for base in ["packed", "none"] {
        for c in ['2', '\u{e9}', '\u{20ac}', '\u{1f600}', '\u{0}', ' '] {
            flong.push((format!("{} followed by U+{:04X}", base, c as u32), V::A(vec![V::t(&format!("{}{}", base, c)), V::t("none")])));
            flong.push((format!("U+{:04X} followed by {}", c as u32, base), V::A(vec![V::t(&format!("{}{}", c, base)), V::t("packed")])));
        }
    }
    // two and three unknown names on a length grid (anything that accumulates the names): every pair
    // of lengths 0..=72, and triples whose running sums pass 32 / 64 / 128 / 256
    for a in 0..=72usize {
        for b in 0..=72usize {
            flong.push((format!("unknown names of {} and {} bytes", a, b), V::A(vec![V::t(&fill_text(a, 3)), V::t(&fill_text(b, 4)), V::t("packed")])));
        }
    }
    for total in [32usize, 64, 128, 256] {
        for a in [1usize, 8, 16, 24] {
            for b in [1usize, 7, 15, 23] {
                for d in 0..=3usize {
                    if total + 1 >= a + b + d {
                        let c = total + 1 - a - b - d; // a + b + c ranges over total-2 ..= total+1
                        flong.push((format!("unknown names of {}, {} and {} bytes", a, b, c), V::A(vec![V::t(&fill_text(a, 3)), V::t("none"), V::t(&fill_text(b, 4)), V::t(&fill_text(c, 5))])));
                    }
                }
            }
        }
    }
    let (flr, fcr) = (&flong, &fctx2);
    sweep(ctx, "long attestation format lists", (flong.len() * fctx2.len()) as u64, "lists of 12, 13, 64 entries with packed / none at every ordered pair of positions among unknown names; lists of 254..=1000 entries; unknown names of 31..=300 bytes", move |idx, l| {
        let (what, list) = &flr[(idx as usize) / fcr.len()];
        let c = &fcr[(idx as usize) % fcr.len()];
        let wire = if c.path.is_empty() { list.clone() } else { treewalk::replaced(&c.wire, &c.path, list.clone()) };
        l.nontrivial += 1;
        l.bump("long format list");
        let v = compare(P, &c.target, &wire);
        if !v.ok {
            l.fail(ctx, idx, v, || case_json(&c.target, &wire, json!({"context": c.label, "list": what})));
        }
    });
    // the filters keep no memory: every ordered pair of short lists decoded back to back
    {
        let mut items: Vec<(String, Box<dyn Fn() -> String + Sync>)> = Vec::new();
        let mk = |alphabet: Vec<V>, ctxs: Vec<Ctxt>, items: &mut Vec<(String, Box<dyn Fn() -> String + Sync>)>| {
            let n = alphabet.len();
            let mut lists: Vec<Vec<usize>> = vec![vec![]];
            for a in 0..n {
                lists.push(vec![a]);
                for b in 0..n {
                    lists.push(vec![a, b]);
                }
            }
            for c in ctxs {
                for l in &lists {
                    let list = V::A(l.iter().map(|i| alphabet[*i].clone()).collect());
                    let wire = if c.path.is_empty() { list.clone() } else { treewalk::replaced(&c.wire, &c.path, list.clone()) };
                    let t = c.target.clone();
                    let label = format!("{} {:?}", c.label, l);
                    items.push((label, Box::new(move || t.observe_bytes(&t.bytes(&wire)).show())));
                }
            }
        };
        let pc: Vec<Ctxt> = pctx.iter().filter(|c| !c.label.contains("sent first")).take(2).cloned().chain(pctx.iter().filter(|c| c.label.starts_with("alone")).cloned()).collect();
        mk(alpha[..4].to_vec(), pc, &mut items);
        let fc: Vec<Ctxt> = fctx2.iter().filter(|c| !c.label.contains("sent first")).take(1).cloned().chain(fctx2.iter().filter(|c| c.label.starts_with("alone")).cloned()).collect();
        mk(vec![V::t("packed"), V::t("none"), V::t("tpm"), V::U(7)], fc, &mut items);
        for w in ["tpm", "packed", ""] {
            items.push((format!("AttestationStatementFormat::try_from({:?})", w), Box::new(move || format!("{:?}", ctap_types::ctap2::AttestationStatementFormat::try_from(w).map(<&str>::from)))));
        }
        {
            let t = Target::Alone("filteredParams");
            for (label, list) in [("params [7]", V::A(vec![V::U(7)])), ("params [{alg: -7}]", V::A(vec![V::M(vec![(V::t("alg"), V::int(-7))])])), ("params [foreign, text]", V::A(vec![param(-7, "x"), V::t("y")])), ("params [ES256, 7]", V::A(vec![param(-7, PUBLIC_KEY), V::U(7)])), ("params [EdDSA, text]", V::A(vec![param(-8, PUBLIC_KEY), V::t("y")])), ("params [ES256, {alg: -8}]", V::A(vec![param(-7, PUBLIC_KEY), V::M(vec![(V::t("alg"), V::int(-8))])]))] {
                let t = t.clone();
                items.push((label.to_string(), Box::new(move || t.observe_bytes(&t.bytes(&list)).show())));
            }
        }
        pair_histories(ctx, P, "list decode call pairs", "every ordered pair of decodes of lists of length <= 2 (4 parameter letters; packed / none / tpm / a non-text entry) in a request and stand-alone, of six ill-formed parameter lists (failing at once / after one accepted entry) and of direct format lookups: the second result must not depend on the first", &items);
    }
    ctx.require_outcomes(&["GetInfo list", "long list", "long format list"]);
    ctx.sample(json!({"list": "[unknown x 11, EdDSA, ES256]", "context": "MakeCredential pubKeyCredParams", "oracle": "[-8, -7]"}));
    ctx.sample(json!({"list": "[tpm, none, packed, none]", "context": "GetAssertion attestationFormatsPreference", "oracle": "known = [none, packed], unknown = true"}));
}

pub fn replay(case: &Value) -> Verdict {
    match case["kind"].as_str() {
        Some("getinfo-algorithms") => {
            let b = crate::refcbor::unhex(case["list"].as_str().unwrap());
            getinfo_algorithms(&crate::refcbor::parse(&b).unwrap().value)
        }
        _ => replay_decode_compare(P, case),
    }
}
