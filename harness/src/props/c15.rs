//! C15 — encoding then decoding (and decoding then encoding) is the identity.
//! Oracle-free: only the real encoder, the real decoder and the types' own equality are used.

use crate::bind;
use crate::core::*;
use crate::engine_sr::explore;
use crate::refcbor::{encode, hex, unhex, V};
use crate::refmodel::{self, Plan, Side};
use crate::respcheck::check_canonical;
use crate::spaces::*;
use crate::spec::*;
use crate::subject::*;
use serde_json::{json, Value};
use std::sync::Arc;

const P: &str = "C15";

#[derive(Clone, Debug, PartialEq)]
pub enum RT {
    DecodeErr(String),
    EncodeErr(String),
    Done { bytes: Vec<u8>, same_value: bool },
    Panic(String),
}

macro_rules! rt {
    ($bytes:expr, $t:ty) => {{
        let v: std::result::Result<$t, _> = cbor_smol::cbor_deserialize($bytes);
        match v {
            Err(e) => RT::DecodeErr(format!("{:?}", e)),
            Ok(v) => {
                let mut buf = vec![0u8; 16384];
                match cbor_smol::cbor_serialize(&v, &mut buf) {
                    Err(e) => RT::EncodeErr(format!("{:?}", e)),
                    Ok(out) => {
                        let out = out.to_vec();
                        let v2: std::result::Result<$t, _> = cbor_smol::cbor_deserialize(&out);
                        let same = match &v2 {
                            Ok(v2) => *v2 == v,
                            Err(_) => false,
                        };
                        RT::Done { bytes: out, same_value: same }
                    }
                }
            }
        }
    }};
}

/// every bidirectional type: (name, wire schema in the loss-free domain)
pub fn bidir_types() -> Vec<(&'static str, Ty)> {
    let mut v = vec![
        ("clientPin.Request", cp_request()),
        ("credentialManagement.Request", cm_request()),
        ("credentialManagement.SubcommandParameters", cm_params()),
        ("largeBlobs.Request", lb_request()),
        ("getInfo.Response", get_info_response_roundtrip()),
        ("getInfo.CtapOptions", ctap_options()),
        ("clientPin.Response", cp_response()),
        ("largeBlobs.Response", lb_response()),
        ("HmacSecretInput", hmac_secret_input()),
        ("AuthenticatorOptions", options_req()),
        ("makeCredential.Extensions", mc_extensions()),
        ("getAssertion.ExtensionsInput", ga_extensions_in()),
        ("getAssertion.ExtensionsOutput", ga_extensions_out()),
        ("RpEntity", rp_entity(false)),
        ("UserEntity", user_entity()),
        ("Descriptor", descriptor_owned()),
        ("DescriptorRef", descriptor_ref()),
        ("Parameters", cred_param()),
        ("FilteredParameters", Ty::Params),
        ("Version", Ty::TextEnum(&VERSIONS)),
        ("Extension", Ty::TextEnum(&EXTENSIONS)),
        ("Transport", Ty::TextEnum(&TRANSPORTS)),
        ("AttestationStatementFormat", Ty::TextEnum(&FORMATS)),
        ("PinV1Subcommand", Ty::Enum(&PIN_SUBCOMMANDS)),
        ("cm.Subcommand", Ty::Enum(&CM_SUBCOMMANDS)),
        ("CredentialProtectionPolicy", Ty::Enum(&CRED_PROTECT)),
        ("getAssertion.UnsignedExtensionOutputs", Ty::EmptyMap),
    ];
    if f_g() {
        v.push(("getInfo.Certifications", certifications()));
    }
    v
}

pub fn roundtrip(name: &str, bytes: &[u8]) -> RT {
    use ctap_types::ctap2::*;
    use ctap_types::webauthn::*;
    breadcrumb(TAG_OTHER, bytes);
    let r = guard(|| match name {
        "clientPin.Request" => rt!(bytes, client_pin::Request),
        "credentialManagement.Request" => rt!(bytes, credential_management::Request),
        "credentialManagement.SubcommandParameters" => rt!(bytes, credential_management::SubcommandParameters),
        "largeBlobs.Request" => rt!(bytes, large_blobs::Request),
        "getInfo.Response" => rt!(bytes, get_info::Response),
        "getInfo.CtapOptions" => rt!(bytes, get_info::CtapOptions),
        #[cfg(feature = "g")]
        "getInfo.Certifications" => rt!(bytes, get_info::Certifications),
        "clientPin.Response" => rt!(bytes, client_pin::Response),
        "largeBlobs.Response" => rt!(bytes, large_blobs::Response),
        "HmacSecretInput" => rt!(bytes, get_assertion::HmacSecretInput),
        "AuthenticatorOptions" => rt!(bytes, AuthenticatorOptions),
        "makeCredential.Extensions" => rt!(bytes, make_credential::Extensions),
        "getAssertion.ExtensionsInput" => rt!(bytes, get_assertion::ExtensionsInput),
        "getAssertion.ExtensionsOutput" => rt!(bytes, get_assertion::ExtensionsOutput),
        "RpEntity" => rt!(bytes, PublicKeyCredentialRpEntity),
        "UserEntity" => rt!(bytes, PublicKeyCredentialUserEntity),
        "Descriptor" => rt!(bytes, PublicKeyCredentialDescriptor),
        "DescriptorRef" => rt!(bytes, PublicKeyCredentialDescriptorRef),
        "Parameters" => rt!(bytes, PublicKeyCredentialParameters),
        "FilteredParameters" => rt!(bytes, FilteredPublicKeyCredentialParameters),
        "Version" => rt!(bytes, get_info::Version),
        "Extension" => rt!(bytes, get_info::Extension),
        "Transport" => rt!(bytes, get_info::Transport),
        "AttestationStatementFormat" => rt!(bytes, AttestationStatementFormat),
        "PinV1Subcommand" => rt!(bytes, client_pin::PinV1Subcommand),
        "cm.Subcommand" => rt!(bytes, credential_management::Subcommand),
        "CredentialProtectionPolicy" => rt!(bytes, credential_management::CredentialProtectionPolicy),
        "getAssertion.UnsignedExtensionOutputs" => rt!(bytes, get_assertion::UnsignedExtensionOutputs),
        other => machinery_panic(&format!("no bidirectional type {}", other)),
    });
    match r {
        Ok(x) => x,
        Err(p) => RT::Panic(p),
    }
}

/// both directions of C15 on one canonical encoding `b` of type `name`
pub fn check_rt(name: &str, b: &[u8]) -> Verdict {
    let sig = |w: &str| format!("{}|{}|{}", P, name, w);
    match roundtrip(name, b) {
        RT::Panic(p) => Verdict::fail(sig("panic"), "no panic", p),
        RT::DecodeErr(e) => Verdict::fail(sig("canonical-encoding-rejected"), "decodes", format!("decode error {} on {}", e, hex(b))),
        RT::EncodeErr(e) => Verdict::fail(sig("decoded-value-does-not-encode"), "encodes", e),
        RT::Done { bytes, same_value } => {
            if bytes != b {
                return Verdict::fail(sig("encode(decode(b))!=b"), hex(b), hex(&bytes));
            }
            if !same_value {
                return Verdict::fail(sig("decode(encode(v))!=v"), "equal values", format!("differs after re-encoding {}", hex(&bytes)));
            }
            Verdict::pass()
        }
    }
}

fn canon_rt(prop: &str, name: &str, b: &[u8]) -> Verdict {
    match roundtrip(name, b) {
        RT::Done { bytes, .. } => check_canonical(prop, name, &bytes),
        RT::Panic(p) => Verdict::fail(format!("{}|{}|panic", prop, name), "no panic", p),
        other => Verdict::fail(format!("{}|{}|no-encoding", prop, name), "an encoding", format!("{:?}", other)),
    }
}

fn rt_case(name: &str, wire: &V, extra: Value) -> Value {
    json!({"kind": "roundtrip", "type": name, "bytes": hex(&encode(wire)), "tree": format!("{:?}", wire), "origin": extra})
}

type Oracle = fn(&str, &str, &[u8]) -> Verdict;

fn explore_types(ctx: &'static Ctx, prop: &'static str, oracle: Oracle) {
    let cap: u64 = if ctx.thorough() { 5_000_000 } else { 200_000 };
    for (name, ty) in bidir_types() {
        let plan = Arc::new(Plan::new(&ty, Side::Response));
        let full = plan.full_mask();
        let all = count_masks(&plan, full, 0);
        let mk = |free: u64, base: u64, radius: Option<u32>, label: &str| {
            let (p1, p2) = (plan.clone(), plan.clone());
            Lattice {
                plan: plan.clone(),
                free,
                base,
                radius,
                name: format!("{} round-trip presence lattice {}", name, label),
                check: Box::new(move |mask| oracle(prop, name, &encode(&p1.build(mask, &[])))),
                case: Box::new(move |mask| rt_case(name, &p2.build(mask, &[]), json!({"mask": p2.describe_mask(mask)}))),
            }
        };
        if all <= cap {
            explore(ctx, mk(full, 0, None, "(all optional members)"), Some(all), "complete");
        } else {
            let tops: u64 = plan.opts.iter().enumerate().filter(|(_, o)| o.parent.is_none()).map(|(i, _)| 1u64 << i).sum();
            let ntop = tops.count_ones();
            if (1u64 << ntop) <= cap {
                explore(ctx, mk(tops, full, None, "(top-level members, nested maps full)"), Some(1 << ntop), "complete over the top-level members");
            } else {
                explore(ctx, mk(tops, full, Some(2), "(top-level members within 2 flips of either end)"), Some(count_radius(ntop, 2)), "singletons, pairs, co-singletons, co-pairs, both ends");
            }
        }
        let anchors = if full == 0 { vec![0] } else { vec![0, full] };
        let mut bound = 2;
        while bound > 1 && anchors.iter().map(|m| count_deviations(&plan, *m, bound)).sum::<u64>() > cap {
            bound -= 1;
        }
        let expect: u64 = anchors.iter().map(|m| count_deviations(&plan, *m, bound)).sum();
        let (p1, p2) = (plan.clone(), plan.clone());
        explore(
            ctx,
            Deviations {
                plan: plan.clone(),
                anchors,
                bound,
                name: format!("{} round-trip value deviations <= {}", name, bound),
                check: Box::new(move |mask, devs| oracle(prop, name, &encode(&p1.build(mask, devs)))),
                case: Box::new(move |mask, devs| rt_case(name, &p2.build(mask, devs), json!({"deviations": describe_devs(&p2, devs)}))),
            },
            Some(expect),
            "loss-free menus (names <= 64 bytes, <= 2 known algorithms, no rp icon)",
        );
    }
}

/// values obtained by construction through the public API: encode with the real encoder,
/// decode, compare with the constructed value
fn constructed(ctx: &'static Ctx) {
    use ctap_types::ctap2::*;
    let kinds: Vec<(&str, Ty)> = vec![
        ("getInfo.Response", get_info_response_roundtrip()),
        ("clientPin.Response", cp_response()),
        ("largeBlobs.Response", lb_response()),
        ("getInfo.CtapOptions", ctap_options()),
        ("makeCredential.Extensions", mc_extensions()),
        ("getAssertion.ExtensionsOutput", ga_extensions_out()),
        ("RpEntity", rp_entity(false)),
        ("UserEntity", user_entity()),
        ("Descriptor", descriptor_owned()),
        ("FilteredParameters", Ty::Params),
    ];
    for (name, ty) in kinds {
        if matches!(ty, Ty::Params) {
            // a bare list has no presence lattice: its menu values are covered by the deviation sweep below
        }
        let plan = Arc::new(Plan::new(&ty, Side::Response));
        let full = plan.full_mask();
        let tops: u64 = plan.opts.iter().enumerate().filter(|(_, o)| o.parent.is_none()).map(|(i, _)| 1u64 << i).sum();
        let ntop = tops.count_ones();
        let radius = if ntop > 12 { Some(2) } else { None };
        let expect = if radius.is_some() { count_radius(ntop, 2) } else { 1 << ntop };
        let p1 = plan.clone();
        let p2 = plan.clone();
        let ty1 = ty.clone();
        let check = move |wire: V| -> Verdict {
            let view = refmodel::decode(&ty1, &wire).unwrap().unwrap();
            let sig = |w: &str| format!("{}|{}|constructed|{}", P, name, w);
            let r = guard(|| {
                let mut buf = vec![0u8; 16384];
                macro_rules! go {
                    ($v:expr, $t:ty) => {{
                        let v: $t = $v;
                        match cbor_smol::cbor_serialize(&v, &mut buf) {
                            Err(e) => Err(format!("encode error {:?}", e)),
                            Ok(out) => match cbor_smol::cbor_deserialize::<$t>(out) {
                                Err(e) => Err(format!("decode error {:?} on {}", e, hex(out))),
                                Ok(v2) => {
                                    if v2 == v {
                                        Ok(())
                                    } else {
                                        Err(format!("decoded value differs: {:?} vs {:?}", v2, v))
                                    }
                                }
                            },
                        }
                    }};
                }
                match name {
                    "getInfo.Response" => go!(bind::build_get_info(&view), get_info::Response),
                    "clientPin.Response" => go!(bind::build_cp_response(&view), client_pin::Response),
                    "largeBlobs.Response" => go!(bind::build_lb_response(&view), large_blobs::Response),
                    "getInfo.CtapOptions" => go!(bind::build_ctap_options(&view), get_info::CtapOptions),
                    "makeCredential.Extensions" => go!(bind::build_mc_ext(&view), make_credential::Extensions),
                    "getAssertion.ExtensionsOutput" => go!(bind::build_ga_ext_out(&view), get_assertion::ExtensionsOutput),
                    "RpEntity" => go!(bind::build_rp(&view), ctap_types::webauthn::PublicKeyCredentialRpEntity),
                    "UserEntity" => go!(bind::build_user(&view), ctap_types::webauthn::PublicKeyCredentialUserEntity),
                    "Descriptor" => go!(bind::build_descriptor(&view), ctap_types::webauthn::PublicKeyCredentialDescriptor),
                    _ => go!(bind::build_known_params(&view), ctap_types::webauthn::FilteredPublicKeyCredentialParameters),
                }
            });
            match r {
                Ok(Ok(())) => Verdict::pass(),
                Ok(Err(e)) => Verdict::fail(sig("decode(encode(v))!=v"), "equal", e),
                Err(p) => Verdict::fail(sig("panic"), "no panic", p),
            }
        };
        let check = std::sync::Arc::new(check);
        let check_l = check.clone();
        let check_d = check.clone();
        // every single menu value of every leaf, on the full value
        {
            let mut cases: Vec<(usize, usize)> = Vec::new();
            for (l, info) in plan.leaves.iter().enumerate() {
                for i in 1..info.menu.len() {
                    cases.push((l, i));
                }
            }
            if !cases.is_empty() {
                let (p3, ty3) = (plan.clone(), ty.clone());
                let cr = &cases;
                sweep(ctx, &format!("{} constructed: single value deviations", name), cases.len() as u64, "the full value with one leaf moved to each other menu value, built through the public API, encoded, decoded, compared", |idx, l| {
                    let (leaf, i) = cr[idx as usize];
                    let wire = p3.build(p3.full_mask(), &[(leaf, i)]);
                    l.nontrivial += 1;
                    let _ = &ty3;
                    let v = check_d(wire.clone());
                    if !v.ok {
                        l.fail(ctx, idx, v, || rt_case(name, &wire, json!({"constructed-deviation": [p3.leaves[leaf].path, i]})));
                    }
                });
            }
        }
        explore(
            ctx,
            Lattice {
                plan: plan.clone(),
                free: tops,
                base: full,
                radius,
                name: format!("{} constructed through the public API", name),
                check: Box::new(move |m| check_l(p1.build(m, &[]))),
                case: Box::new(move |mask| rt_case(name, &p2.build(mask, &[]), json!({"constructed": true, "mask": p2.describe_mask(mask)}))),
            },
            Some(expect),
            "value built with ResponseBuilder/Default/field assignment, encoded, decoded, compared",
        );
    }
}

/// the documented exception: an rp icon is accepted and not re-emitted (and nothing else is lost)
fn rp_icon_exception() -> Verdict {
    let with = V::M(vec![(V::t("id"), V::t("example.org")), (V::t("icon"), V::t("https://x/i.png")), (V::t("name"), V::t("Example"))]).canon();
    let without = V::M(vec![(V::t("id"), V::t("example.org")), (V::t("name"), V::t("Example"))]).canon();
    match roundtrip("RpEntity", &encode(&with)) {
        RT::Done { bytes, .. } if bytes == encode(&without) => Verdict::pass(),
        other => Verdict::fail(format!("{}|RpEntity|icon-exception", P), hex(&encode(&without)), format!("{:?}", other)),
    }
}

const DEFAULTS: [&str; 7] = ["getInfo.Response", "getInfo.CtapOptions", "clientPin.Response", "largeBlobs.Response", "makeCredential.Extensions", "getAssertion.ExtensionsInput", "getAssertion.ExtensionsOutput"];

fn default_roundtrip(name: &str) -> Verdict {
    use ctap_types::ctap2::*;
    macro_rules! go {
        ($t:ty) => {{
            let v = <$t>::default();
            let mut b1 = [0u8; 1024];
            let e1 = cbor_smol::cbor_serialize(&v, &mut b1).map(|s| s.to_vec()).map_err(|e| format!("{:?}", e))?;
            let d: $t = cbor_smol::cbor_deserialize(&e1).map_err(|e| format!("decode of the default's own encoding {}: {:?}", hex(&e1), e))?;
            if d != v || d.clone() != v {
                return Err(format!("decode(encode(default)) = {:?}, default = {:?}", d, v));
            }
            let mut b2 = [0u8; 1024];
            let e2 = cbor_smol::cbor_serialize(&d, &mut b2).map(|s| s.to_vec()).map_err(|e| format!("{:?}", e))?;
            if e1 != e2 {
                return Err(format!("re-encoding differs: {} vs {}", hex(&e1), hex(&e2)));
            }
            match crate::refcbor::parse(&e1) {
                Ok(p) if p.used == e1.len() && p.issues.is_empty() => Ok(()),
                other => Err(format!("encoding {} is not canonical: {:?}", hex(&e1), other.map(|p| p.issues))),
            }
        }};
    }
    let r: std::result::Result<std::result::Result<(), String>, String> = guard(|| match name {
        "getInfo.Response" => go!(get_info::Response),
        "getInfo.CtapOptions" => go!(get_info::CtapOptions),
        "clientPin.Response" => go!(client_pin::Response),
        "largeBlobs.Response" => go!(large_blobs::Response),
        "makeCredential.Extensions" => go!(make_credential::Extensions),
        "getAssertion.ExtensionsInput" => go!(get_assertion::ExtensionsInput),
        _ => go!(get_assertion::ExtensionsOutput),
    });
    match r {
        Ok(Ok(())) => Verdict::pass(),
        Ok(Err(e)) => Verdict::fail(format!("{}|{}|default-constructed", P, name), "round trip of the default value", e),
        Err(p) => Verdict::fail(format!("{}|{}|default-constructed|panic", P, name), "no panic", p),
    }
}

pub fn run(ctx: &'static Ctx) {
    ctx.rule("state = canonical encoding of a value of a bidirectional type (member subset, menu values); both round-trip directions are evaluated with the real encoder/decoder and the type's own equality; non-trivial = differs from the minimal anchor");
    ctx.assume("loss-free domain: names <= 64 bytes, at most two known algorithms, no relying-party icon (the documented exception, checked separately)");
    explore_types(ctx, P, |_p, name, b| check_rt(name, b));
    constructed(ctx);
    sweep(ctx, "default-constructed values", DEFAULTS.len() as u64, "Default::default() of every type that offers it: decode(encode(v)) == v, the encoding is stable and canonical", |idx, l| {
        l.nontrivial += 1;
        let v = default_roundtrip(DEFAULTS[idx as usize]);
        if !v.ok {
            l.fail(ctx, idx, v, || json!({"kind": "default", "type": DEFAULTS[idx as usize]}));
        }
    });
    sweep(ctx, "rp icon exception", 1, "the only documented exception: icon accepted, not re-emitted", |idx, l| {
        l.nontrivial += 1;
        let v = rp_icon_exception();
        if !v.ok {
            l.fail(ctx, idx, v, || json!({"kind": "rp-icon"}));
        }
    });
    ctx.sample(json!({"type": "getInfo.Response", "directions": ["decode(encode(v)) == v", "encode(decode(b)) == b"]}));
}

/// C03(d): cbor_serialize of each public serialisable type stand-alone is canonical
pub fn standalone_canonical(ctx: &'static Ctx, prop: &'static str) {
    explore_types(ctx, prop, canon_rt);
}

pub fn replay_canonical(case: &Value) -> Verdict {
    canon_rt("C03", case["type"].as_str().unwrap(), &unhex(case["bytes"].as_str().unwrap()))
}

pub fn replay(case: &Value) -> Verdict {
    match case["kind"].as_str() {
        Some("rp-icon") => rp_icon_exception(),
        Some("default") => default_roundtrip(case["type"].as_str().unwrap()),
        Some("roundtrip") => check_rt(case["type"].as_str().unwrap(), &unhex(case["bytes"].as_str().unwrap())),
        _ => machinery_panic("C15: unknown replay kind"),
    }
}
