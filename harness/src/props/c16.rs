//! C16 — cargo features only add members; they never change the wire format of the rest.
//! Every configuration evaluates the same corpus (built from the members that exist without any
//! feature) on its own build of ctap-types and writes a transcript; the orchestrator compares
//! every transcript with cfg-000's.

use crate::core::*;
use crate::refcbor::{encode, hex, V};
use crate::refmodel::{Plan, Side};
use crate::reqcheck::*;
use crate::respcheck::*;
use crate::spec::*;
use serde_json::{json, Value};
use std::sync::atomic::{AtomicU64, Ordering};

const P: &str = "C16";

fn fnv(s: &[u8]) -> u64 {
    let mut h: u64 = 0xcbf29ce484222325;
    for b in s {
        h ^= *b as u64;
        h = h.wrapping_mul(0x100000001b3);
    }
    h
}

/// one corpus space: name, number of cases, evaluator (index -> outcome text)
pub struct CSpace {
    pub name: String,
    pub total: u64,
    pub eval: Box<dyn Fn(u64) -> String + Send + Sync>,
}

fn masks_of(plan: &Plan) -> Vec<u64> {
    let n = plan.opts.len();
    assert!(n <= 22);
    (0..(1u64 << n)).filter(|m| plan.valid(*m)).collect()
}

/// (mask, deviations) cases: every valid mask at default values, then every single deviation
/// from the minimal and the full anchor
fn cases_of(plan: &Plan) -> Vec<(u64, Vec<(usize, usize)>)> {
    let mut out: Vec<(u64, Vec<(usize, usize)>)> = masks_of(plan).into_iter().map(|m| (m, vec![])).collect();
    for anchor in [0u64, plan.full_mask()] {
        for (l, info) in plan.leaves.iter().enumerate() {
            if plan.leaf_enabled(l, anchor) {
                for i in 1..info.menu.len() {
                    out.push((anchor, vec![(l, i)]));
                }
            }
        }
    }
    if THOROUGH.load(Ordering::Relaxed) {
        for anchor in [0u64, plan.full_mask()] {
            let enabled: Vec<usize> = (0..plan.leaves.len()).filter(|l| plan.leaf_enabled(*l, anchor)).collect();
            let mut count = 0u64;
            'outer: for (ai, a) in enabled.iter().enumerate() {
                for b in &enabled[ai + 1..] {
                    for i in 1..plan.leaves[*a].menu.len() {
                        for j in 1..plan.leaves[*b].menu.len() {
                            out.push((anchor, vec![(*a, i), (*b, j)]));
                            count += 1;
                            if count > 400_000 {
                                break 'outer;
                            }
                        }
                    }
                }
            }
        }
    }
    out
}

fn shape_variants(ty: &Ty, wire: &V) -> Vec<V> {
    use crate::treewalk::{self, Step};
    let mut out = Vec::new();
    let others = [V::U(0), V::U(1), V::N(0), V::B(vec![]), V::B(vec![1; 16]), V::T(vec![]), V::t("a"), V::A(vec![]), V::A(vec![V::U(0)]), V::M(vec![]), V::Bool(true), V::Bool(false), V::Null];
    for s in treewalk::sites(ty, wire) {
        if matches!(s.path.last(), Some(Step::Key(_))) {
            out.push(treewalk::removed(wire, &s.path));
            out.push(treewalk::duplicated(wire, &s.path));
        }
        for o in &others {
            // a byte string / text of the member's own type is a different value, not a different
            // shape; whether it fits may legitimately depend on a feature (large-blob fragment size)
            let same_kind = matches!((&s.ty, o), (Ty::Bytes(_) | Ty::BytesExact(_), V::B(_)) | (Ty::Text(_) | Ty::TextTrunc(_) | Ty::TextSkip(_) | Ty::Icon, V::T(_)));
            if same_kind {
                continue;
            }
            out.push(treewalk::replaced(wire, &s.path, o.clone()));
        }
        if matches!(treewalk::get(wire, &s.path), Some(V::M(_))) {
            for (k, v) in [(V::U(99), V::U(0)), (V::U(0), V::U(0)), (V::N(0), V::U(0)), (V::t("zz"), V::U(0)), (V::t(""), V::M(vec![])), (V::B(vec![]), V::U(0))] {
                out.push(treewalk::inserted(wire, &s.path, usize::MAX, k.clone(), v.clone()));
                out.push(treewalk::inserted(wire, &s.path, 0, k, v));
            }
        }
    }
    out
}

static THOROUGH: std::sync::atomic::AtomicBool = std::sync::atomic::AtomicBool::new(false);

/// the corpus, described with base-mode (feature-free) schemas
pub fn corpus() -> Vec<CSpace> {
    set_base_mode(true);
    let mut spaces = Vec::new();
    for b in PARAM_CMDS {
        let target = Target::Cmd(b);
        let plan = Plan::new(&target.schema(), Side::Request);
        let cases = cases_of(&plan);
        let t = target.clone();
        spaces.push(CSpace {
            name: format!("decode {}", target.name()),
            total: cases.len() as u64,
            eval: Box::new(move |i| {
                let (m, d) = &cases[i as usize];
                t.observe_bytes(&t.bytes(&plan.build(*m, d))).show()
            }),
        });
    }
    for n in STANDALONE.iter().take(STANDALONE_STRUCTS) {
        let target = Target::Alone(n);
        let plan = Plan::new(&target.schema(), Side::Request);
        let cases = cases_of(&plan);
        let t = target.clone();
        spaces.push(CSpace {
            name: format!("decode {}", target.name()),
            total: cases.len() as u64,
            eval: Box::new(move |i| {
                let (m, d) = &cases[i as usize];
                t.observe_bytes(&t.bytes(&plan.build(*m, d))).show()
            }),
        });
    }
    for kind in RKINDS {
        let schema = kind.schema();
        let plan = Plan::new(&schema, Side::Response);
        let cases = cases_of(&plan);
        spaces.push(CSpace {
            name: format!("encode {}", kind.name()),
            total: cases.len() as u64,
            eval: Box::new(move |i| {
                let (m, d) = &cases[i as usize];
                let wire = plan.build(*m, d);
                // the view must be derived with the base-mode schema captured here
                let view = crate::refmodel::decode(&schema, &wire).unwrap().unwrap();
                match guard(|| {
                    let r = kind.build(&view);
                    let mut buf: heapless::Vec<u8, BIG> = heapless::Vec::new();
                    r.serialize(&mut buf);
                    buf.to_vec()
                }) {
                    Ok(b) => hex(&b),
                    Err(p) => format!("PANIC {}", p),
                }
            }),
        });
    }
    for (name, ty) in super::c15::bidir_types() {
        let plan = Plan::new(&ty, Side::Response);
        let cases = cases_of(&plan);
        spaces.push(CSpace {
            name: format!("roundtrip {}", name),
            total: cases.len() as u64,
            eval: Box::new(move |i| {
                let (m, d) = &cases[i as usize];
                format!("{:?}", super::c15::roundtrip(name, &encode(&plan.build(*m, d))))
            }),
        });
    }
    // ill-formed and unusual shapes must be judged alike everywhere too: from each full anchor,
    // every member removed (required ones included), duplicated, replaced by a value of every
    // other CBOR type, and an unknown integer / text key added to every map
    for b in PARAM_CMDS {
        let target = Target::Cmd(b);
        let plan = Plan::new(&target.schema(), Side::Request);
        let wires = shape_variants(&target.schema(), &plan.build(plan.full_mask(), &[]));
        let t = target.clone();
        spaces.push(CSpace { name: format!("decode shapes {}", target.name()), total: wires.len() as u64, eval: Box::new(move |i| t.observe_bytes(&t.bytes(&wires[i as usize])).show()) });
    }
    for n in STANDALONE.iter().take(STANDALONE_STRUCTS) {
        let target = Target::Alone(n);
        let plan = Plan::new(&target.schema(), Side::Request);
        let wires = shape_variants(&target.schema(), &plan.build(plan.full_mask(), &[]));
        let t = target.clone();
        spaces.push(CSpace { name: format!("decode shapes {}", target.name()), total: wires.len() as u64, eval: Box::new(move |i| t.observe_bytes(&t.bytes(&wires[i as usize])).show()) });
    }
    for (name, ty) in super::c15::bidir_types() {
        let plan = Plan::new(&ty, Side::Response);
        let wires = shape_variants(&ty, &plan.build(plan.full_mask(), &[]));
        spaces.push(CSpace { name: format!("roundtrip shapes {}", name), total: wires.len() as u64, eval: Box::new(move |i| match super::c15::roundtrip(name, &encode(&wires[i as usize])) {
                // which of the decoder's error kinds an ill-formed message meets first is not part
                // of the wire format; acceptance and the decoded / re-encoded value are
                super::c15::RT::DecodeErr(_) => "DecodeErr".to_string(),
                other => format!("{:?}", other),
            }),
        });
    }
    // authenticator data with the feature-free extension members
    for mc in [true, false] {
        let names = super::c07::ext_members(mc);
        let radices: Vec<u64> = names.iter().map(|n| super::c07::ext_radix(mc, n)).collect();
        let n_ext = product(&radices) + 1;
        // ... and every id length 500..=560: with each extension choice some of them make the total
        // exactly 675 / 676 / 677 bytes
        let mut ids: Vec<usize> = vec![0usize, 1, 16, 255, 256, 600, 640, 700];
        ids.extend(500..=560);
        let rad = [16u64, super::c07::COUNTERS.len() as u64, if mc { 1 + ids.len() as u64 } else { 1 }, n_ext];
        spaces.push(CSpace {
            name: format!("authenticator data {}", if mc { "mc" } else { "ga" }),
            total: product(&rad),
            eval: Box::new(move |i| {
                let mut d = [0u64; 4];
                unrank(i, &rad, &mut d);
                let ext = if d[3] == 0 {
                    None
                } else {
                    let mut e = vec![0u64; radices.len()];
                    unrank(d[3] - 1, &radices, &mut e);
                    Some(e.iter().map(|x| *x as u8).collect())
                };
                let c = super::c07::Case { mc, flags: d[0] as u8, count: super::c07::COUNTERS[d[1] as usize], attested: d[2] != 0, id: if d[2] != 0 { ids[d[2] as usize - 1] } else { 0 }, pk: 77, aaguid: 16, ext };
                thread_local! { static B: super::c07::Buffers = super::c07::Buffers::new(); }
                B.with(|b| match super::c07::observed(&c, b) {
                    Ok(Some(x)) => hex(&x),
                    Ok(None) => "Err".into(),
                    Err(p) => format!("PANIC {}", p),
                })
            }),
        });
    }
    spaces
}

pub fn run(ctx: &'static Ctx) {
    ctx.rule("state = (configuration, corpus case); the corpus is built from the members that exist without any feature: every member subset and every single value deviation of every request (decoded), every response (encoded), every bidirectional type (round trip) and the authenticator-data grid; every configuration's outcome must be identical to cfg-000's; non-trivial = every case");
    ctx.assume("outcomes are compared through a 64-bit FNV-1a hash of the decoded view text / encoded bytes; a differing case is re-evaluated in full by the replay");
    THOROUGH.store(ctx.thorough(), Ordering::Relaxed);
    let out = std::env::var("CTAPMC_TRANSCRIPT").unwrap_or_else(|_| machinery_panic("C16 needs CTAPMC_TRANSCRIPT"));
    let spaces = corpus();
    let mut text = String::new();
    for sp in &spaces {
        let hashes: Vec<AtomicU64> = (0..sp.total).map(|_| AtomicU64::new(0)).collect();
        let hr = &hashes;
        let ev = &sp.eval;
        // base mode must be on while evaluating closures that consult the schema lazily
        sweep(ctx, &sp.name, sp.total, "corpus cases of this space evaluated on this configuration's build", move |idx, l| {
            l.nontrivial += 1;
            let o = ev(idx);
            l.bump(if o.starts_with("PANIC") { "panic" } else { "evaluated" });
            hr[idx as usize].store(fnv(o.as_bytes()), Ordering::Relaxed);
            if o.starts_with("PANIC") {
                l.fail(ctx, idx, Verdict::fail(format!("{}|panic", P), "no panic", o), || json!({"kind": "transcript-case", "space": "?", "index": idx}));
            }
        });
        for (i, h) in hashes.iter().enumerate() {
            text.push_str(&format!("{}#{}\t{:016x}\n", sp.name, i, h.load(Ordering::Relaxed)));
        }
    }
    std::fs::write(&out, text).unwrap_or_else(|_| machinery_panic("cannot write transcript"));
    ctx.sample(json!({"space": spaces[0].name, "index": 0, "outcome": (spaces[0].eval)(0)}));
    let k = spaces.iter().position(|s| s.name.starts_with("encode GetInfo")).unwrap();
    ctx.sample(json!({"space": spaces[k].name, "index": 5, "outcome": (spaces[k].eval)(5)}));
}

/// full outcome of one corpus case on this configuration (used by the orchestrator's replay)
pub fn outcome(space: &str, index: u64) -> String {
    THOROUGH.store(std::env::var("VERIF_TIER").map_or(false, |t| t == "thorough"), Ordering::Relaxed);
    let spaces = corpus();
    match spaces.iter().find(|s| s.name == space) {
        Some(s) if index < s.total => (s.eval)(index),
        _ => machinery_panic("C16: no such corpus case"),
    }
}
