//! C17 — a response fits the transport buffer completely or becomes a one-byte error.

use crate::bind;
use crate::core::*;
use crate::engine_sr::{explore, Space};
use crate::refcbor::{hex, V};
use crate::refmodel::{self, fill_bytes, Plan, Side};
use crate::respcheck::*;
use crate::spec::*;
use crate::subject::*;
use ctap_types::ctap2;
use serde_json::{json, Value};
use std::sync::Arc;

const P: &str = "C17";

/// buffer content before the call: 0 = empty, 1 = half filled, 2 = completely filled (0xEE pattern)
fn ser<const N: usize>(r: &ctap2::Response, prefill: u8) -> Result<Vec<u8>, String> {
    guard(|| {
        let mut buf: heapless::Vec<u8, N> = heapless::Vec::new();
        let k = match prefill {
            0 => 0,
            1 => N / 2,
            _ => N,
        };
        for i in 0..k {
            buf.push(0xee ^ (i as u8 & 1)).unwrap();
        }
        r.serialize(&mut buf);
        buf.to_vec()
    })
}

fn ser_into<const N: usize>(r: &ctap2::Response, content: &[u8]) -> Result<Vec<u8>, String> {
    guard(|| {
        let mut buf: heapless::Vec<u8, N> = heapless::Vec::new();
        buf.extend_from_slice(content).unwrap();
        r.serialize(&mut buf);
        buf.to_vec()
    })
}

pub const CAPS: [usize; 342] = [1, 2, 3, 4, 5, 6, 7, 8, 9, 10, 11, 12, 13, 14, 15, 16, 17, 18, 19, 20, 21, 22, 23, 24, 25, 26, 27, 28, 29, 30, 31, 32, 33, 34, 35, 36, 37, 38, 39, 40, 41, 42, 43, 44, 45, 46, 47, 48, 49, 50, 51, 52, 53, 54, 55, 56, 57, 58, 59, 60, 61, 62, 63, 64, 65, 66, 67, 68, 69, 70, 71, 72, 73, 74, 75, 76, 77, 78, 79, 80, 81, 82, 83, 84, 85, 86, 87, 88, 89, 90, 91, 92, 93, 94, 95, 96, 97, 98, 99, 100, 101, 102, 103, 104, 105, 106, 107, 108, 109, 110, 111, 112, 113, 114, 115, 116, 117, 118, 119, 120, 121, 122, 123, 124, 125, 126, 127, 128, 129, 130, 131, 132, 133, 134, 135, 136, 137, 138, 139, 140, 141, 142, 143, 144, 145, 146, 147, 148, 149, 150, 151, 152, 153, 154, 155, 156, 157, 158, 159, 160, 161, 162, 163, 164, 165, 166, 167, 168, 169, 170, 171, 172, 173, 174, 175, 176, 177, 178, 179, 180, 181, 182, 183, 184, 185, 186, 187, 188, 189, 190, 191, 192, 193, 194, 195, 196, 197, 198, 199, 200, 201, 202, 203, 204, 205, 206, 207, 208, 209, 210, 211, 212, 213, 214, 215, 216, 217, 218, 219, 220, 221, 222, 223, 224, 225, 226, 227, 228, 229, 230, 231, 232, 233, 234, 235, 236, 237, 238, 239, 240, 241, 242, 243, 244, 245, 246, 247, 248, 249, 250, 251, 252, 253, 254, 255, 256, 257, 258, 259, 260, 261, 262, 263, 264, 265, 266, 267, 268, 269, 270, 271, 272, 273, 274, 275, 276, 277, 278, 279, 280, 281, 282, 283, 284, 285, 286, 287, 288, 289, 290, 291, 292, 293, 294, 295, 296, 297, 298, 299, 300, 301, 302, 303, 304, 305, 306, 307, 308, 309, 310, 311, 312, 313, 314, 315, 316, 317, 318, 319, 320, 1023, 1024, 1025, 2047, 2048, 2049, 2095, 2096, 2097, 2560, 3071, 3072, 3073, 4095, 4096, 4097, 7609, 65535, 65536, 65537, 66000, 131072];

pub fn ser_cap(n: usize, r: &ctap2::Response, prefill: u8) -> Result<Vec<u8>, String> {
    match n {
        1 => ser::<1>(r, prefill),
        2 => ser::<2>(r, prefill),
        3 => ser::<3>(r, prefill),
        4 => ser::<4>(r, prefill),
        5 => ser::<5>(r, prefill),
        6 => ser::<6>(r, prefill),
        7 => ser::<7>(r, prefill),
        8 => ser::<8>(r, prefill),
        9 => ser::<9>(r, prefill),
        10 => ser::<10>(r, prefill),
        11 => ser::<11>(r, prefill),
        12 => ser::<12>(r, prefill),
        13 => ser::<13>(r, prefill),
        14 => ser::<14>(r, prefill),
        15 => ser::<15>(r, prefill),
        16 => ser::<16>(r, prefill),
        17 => ser::<17>(r, prefill),
        18 => ser::<18>(r, prefill),
        19 => ser::<19>(r, prefill),
        20 => ser::<20>(r, prefill),
        21 => ser::<21>(r, prefill),
        22 => ser::<22>(r, prefill),
        23 => ser::<23>(r, prefill),
        24 => ser::<24>(r, prefill),
        25 => ser::<25>(r, prefill),
        26 => ser::<26>(r, prefill),
        27 => ser::<27>(r, prefill),
        28 => ser::<28>(r, prefill),
        29 => ser::<29>(r, prefill),
        30 => ser::<30>(r, prefill),
        31 => ser::<31>(r, prefill),
        32 => ser::<32>(r, prefill),
        33 => ser::<33>(r, prefill),
        34 => ser::<34>(r, prefill),
        35 => ser::<35>(r, prefill),
        36 => ser::<36>(r, prefill),
        37 => ser::<37>(r, prefill),
        38 => ser::<38>(r, prefill),
        39 => ser::<39>(r, prefill),
        40 => ser::<40>(r, prefill),
        41 => ser::<41>(r, prefill),
        42 => ser::<42>(r, prefill),
        43 => ser::<43>(r, prefill),
        44 => ser::<44>(r, prefill),
        45 => ser::<45>(r, prefill),
        46 => ser::<46>(r, prefill),
        47 => ser::<47>(r, prefill),
        48 => ser::<48>(r, prefill),
        49 => ser::<49>(r, prefill),
        50 => ser::<50>(r, prefill),
        51 => ser::<51>(r, prefill),
        52 => ser::<52>(r, prefill),
        53 => ser::<53>(r, prefill),
        54 => ser::<54>(r, prefill),
        55 => ser::<55>(r, prefill),
        56 => ser::<56>(r, prefill),
        57 => ser::<57>(r, prefill),
        58 => ser::<58>(r, prefill),
        59 => ser::<59>(r, prefill),
        60 => ser::<60>(r, prefill),
        61 => ser::<61>(r, prefill),
        62 => ser::<62>(r, prefill),
        63 => ser::<63>(r, prefill),
        64 => ser::<64>(r, prefill),
        65 => ser::<65>(r, prefill),
        66 => ser::<66>(r, prefill),
        67 => ser::<67>(r, prefill),
        68 => ser::<68>(r, prefill),
        69 => ser::<69>(r, prefill),
        70 => ser::<70>(r, prefill),
        71 => ser::<71>(r, prefill),
        72 => ser::<72>(r, prefill),
        73 => ser::<73>(r, prefill),
        74 => ser::<74>(r, prefill),
        75 => ser::<75>(r, prefill),
        76 => ser::<76>(r, prefill),
        77 => ser::<77>(r, prefill),
        78 => ser::<78>(r, prefill),
        79 => ser::<79>(r, prefill),
        80 => ser::<80>(r, prefill),
        81 => ser::<81>(r, prefill),
        82 => ser::<82>(r, prefill),
        83 => ser::<83>(r, prefill),
        84 => ser::<84>(r, prefill),
        85 => ser::<85>(r, prefill),
        86 => ser::<86>(r, prefill),
        87 => ser::<87>(r, prefill),
        88 => ser::<88>(r, prefill),
        89 => ser::<89>(r, prefill),
        90 => ser::<90>(r, prefill),
        91 => ser::<91>(r, prefill),
        92 => ser::<92>(r, prefill),
        93 => ser::<93>(r, prefill),
        94 => ser::<94>(r, prefill),
        95 => ser::<95>(r, prefill),
        96 => ser::<96>(r, prefill),
        97 => ser::<97>(r, prefill),
        98 => ser::<98>(r, prefill),
        99 => ser::<99>(r, prefill),
        100 => ser::<100>(r, prefill),
        101 => ser::<101>(r, prefill),
        102 => ser::<102>(r, prefill),
        103 => ser::<103>(r, prefill),
        104 => ser::<104>(r, prefill),
        105 => ser::<105>(r, prefill),
        106 => ser::<106>(r, prefill),
        107 => ser::<107>(r, prefill),
        108 => ser::<108>(r, prefill),
        109 => ser::<109>(r, prefill),
        110 => ser::<110>(r, prefill),
        111 => ser::<111>(r, prefill),
        112 => ser::<112>(r, prefill),
        113 => ser::<113>(r, prefill),
        114 => ser::<114>(r, prefill),
        115 => ser::<115>(r, prefill),
        116 => ser::<116>(r, prefill),
        117 => ser::<117>(r, prefill),
        118 => ser::<118>(r, prefill),
        119 => ser::<119>(r, prefill),
        120 => ser::<120>(r, prefill),
        121 => ser::<121>(r, prefill),
        122 => ser::<122>(r, prefill),
        123 => ser::<123>(r, prefill),
        124 => ser::<124>(r, prefill),
        125 => ser::<125>(r, prefill),
        126 => ser::<126>(r, prefill),
        127 => ser::<127>(r, prefill),
        128 => ser::<128>(r, prefill),
        129 => ser::<129>(r, prefill),
        130 => ser::<130>(r, prefill),
        131 => ser::<131>(r, prefill),
        132 => ser::<132>(r, prefill),
        133 => ser::<133>(r, prefill),
        134 => ser::<134>(r, prefill),
        135 => ser::<135>(r, prefill),
        136 => ser::<136>(r, prefill),
        137 => ser::<137>(r, prefill),
        138 => ser::<138>(r, prefill),
        139 => ser::<139>(r, prefill),
        140 => ser::<140>(r, prefill),
        141 => ser::<141>(r, prefill),
        142 => ser::<142>(r, prefill),
        143 => ser::<143>(r, prefill),
        144 => ser::<144>(r, prefill),
        145 => ser::<145>(r, prefill),
        146 => ser::<146>(r, prefill),
        147 => ser::<147>(r, prefill),
        148 => ser::<148>(r, prefill),
        149 => ser::<149>(r, prefill),
        150 => ser::<150>(r, prefill),
        151 => ser::<151>(r, prefill),
        152 => ser::<152>(r, prefill),
        153 => ser::<153>(r, prefill),
        154 => ser::<154>(r, prefill),
        155 => ser::<155>(r, prefill),
        156 => ser::<156>(r, prefill),
        157 => ser::<157>(r, prefill),
        158 => ser::<158>(r, prefill),
        159 => ser::<159>(r, prefill),
        160 => ser::<160>(r, prefill),
        161 => ser::<161>(r, prefill),
        162 => ser::<162>(r, prefill),
        163 => ser::<163>(r, prefill),
        164 => ser::<164>(r, prefill),
        165 => ser::<165>(r, prefill),
        166 => ser::<166>(r, prefill),
        167 => ser::<167>(r, prefill),
        168 => ser::<168>(r, prefill),
        169 => ser::<169>(r, prefill),
        170 => ser::<170>(r, prefill),
        171 => ser::<171>(r, prefill),
        172 => ser::<172>(r, prefill),
        173 => ser::<173>(r, prefill),
        174 => ser::<174>(r, prefill),
        175 => ser::<175>(r, prefill),
        176 => ser::<176>(r, prefill),
        177 => ser::<177>(r, prefill),
        178 => ser::<178>(r, prefill),
        179 => ser::<179>(r, prefill),
        180 => ser::<180>(r, prefill),
        181 => ser::<181>(r, prefill),
        182 => ser::<182>(r, prefill),
        183 => ser::<183>(r, prefill),
        184 => ser::<184>(r, prefill),
        185 => ser::<185>(r, prefill),
        186 => ser::<186>(r, prefill),
        187 => ser::<187>(r, prefill),
        188 => ser::<188>(r, prefill),
        189 => ser::<189>(r, prefill),
        190 => ser::<190>(r, prefill),
        191 => ser::<191>(r, prefill),
        192 => ser::<192>(r, prefill),
        193 => ser::<193>(r, prefill),
        194 => ser::<194>(r, prefill),
        195 => ser::<195>(r, prefill),
        196 => ser::<196>(r, prefill),
        197 => ser::<197>(r, prefill),
        198 => ser::<198>(r, prefill),
        199 => ser::<199>(r, prefill),
        200 => ser::<200>(r, prefill),
        201 => ser::<201>(r, prefill),
        202 => ser::<202>(r, prefill),
        203 => ser::<203>(r, prefill),
        204 => ser::<204>(r, prefill),
        205 => ser::<205>(r, prefill),
        206 => ser::<206>(r, prefill),
        207 => ser::<207>(r, prefill),
        208 => ser::<208>(r, prefill),
        209 => ser::<209>(r, prefill),
        210 => ser::<210>(r, prefill),
        211 => ser::<211>(r, prefill),
        212 => ser::<212>(r, prefill),
        213 => ser::<213>(r, prefill),
        214 => ser::<214>(r, prefill),
        215 => ser::<215>(r, prefill),
        216 => ser::<216>(r, prefill),
        217 => ser::<217>(r, prefill),
        218 => ser::<218>(r, prefill),
        219 => ser::<219>(r, prefill),
        220 => ser::<220>(r, prefill),
        221 => ser::<221>(r, prefill),
        222 => ser::<222>(r, prefill),
        223 => ser::<223>(r, prefill),
        224 => ser::<224>(r, prefill),
        225 => ser::<225>(r, prefill),
        226 => ser::<226>(r, prefill),
        227 => ser::<227>(r, prefill),
        228 => ser::<228>(r, prefill),
        229 => ser::<229>(r, prefill),
        230 => ser::<230>(r, prefill),
        231 => ser::<231>(r, prefill),
        232 => ser::<232>(r, prefill),
        233 => ser::<233>(r, prefill),
        234 => ser::<234>(r, prefill),
        235 => ser::<235>(r, prefill),
        236 => ser::<236>(r, prefill),
        237 => ser::<237>(r, prefill),
        238 => ser::<238>(r, prefill),
        239 => ser::<239>(r, prefill),
        240 => ser::<240>(r, prefill),
        241 => ser::<241>(r, prefill),
        242 => ser::<242>(r, prefill),
        243 => ser::<243>(r, prefill),
        244 => ser::<244>(r, prefill),
        245 => ser::<245>(r, prefill),
        246 => ser::<246>(r, prefill),
        247 => ser::<247>(r, prefill),
        248 => ser::<248>(r, prefill),
        249 => ser::<249>(r, prefill),
        250 => ser::<250>(r, prefill),
        251 => ser::<251>(r, prefill),
        252 => ser::<252>(r, prefill),
        253 => ser::<253>(r, prefill),
        254 => ser::<254>(r, prefill),
        255 => ser::<255>(r, prefill),
        256 => ser::<256>(r, prefill),
        257 => ser::<257>(r, prefill),
        258 => ser::<258>(r, prefill),
        259 => ser::<259>(r, prefill),
        260 => ser::<260>(r, prefill),
        261 => ser::<261>(r, prefill),
        262 => ser::<262>(r, prefill),
        263 => ser::<263>(r, prefill),
        264 => ser::<264>(r, prefill),
        265 => ser::<265>(r, prefill),
        266 => ser::<266>(r, prefill),
        267 => ser::<267>(r, prefill),
        268 => ser::<268>(r, prefill),
        269 => ser::<269>(r, prefill),
        270 => ser::<270>(r, prefill),
        271 => ser::<271>(r, prefill),
        272 => ser::<272>(r, prefill),
        273 => ser::<273>(r, prefill),
        274 => ser::<274>(r, prefill),
        275 => ser::<275>(r, prefill),
        276 => ser::<276>(r, prefill),
        277 => ser::<277>(r, prefill),
        278 => ser::<278>(r, prefill),
        279 => ser::<279>(r, prefill),
        280 => ser::<280>(r, prefill),
        281 => ser::<281>(r, prefill),
        282 => ser::<282>(r, prefill),
        283 => ser::<283>(r, prefill),
        284 => ser::<284>(r, prefill),
        285 => ser::<285>(r, prefill),
        286 => ser::<286>(r, prefill),
        287 => ser::<287>(r, prefill),
        288 => ser::<288>(r, prefill),
        289 => ser::<289>(r, prefill),
        290 => ser::<290>(r, prefill),
        291 => ser::<291>(r, prefill),
        292 => ser::<292>(r, prefill),
        293 => ser::<293>(r, prefill),
        294 => ser::<294>(r, prefill),
        295 => ser::<295>(r, prefill),
        296 => ser::<296>(r, prefill),
        297 => ser::<297>(r, prefill),
        298 => ser::<298>(r, prefill),
        299 => ser::<299>(r, prefill),
        300 => ser::<300>(r, prefill),
        301 => ser::<301>(r, prefill),
        302 => ser::<302>(r, prefill),
        303 => ser::<303>(r, prefill),
        304 => ser::<304>(r, prefill),
        305 => ser::<305>(r, prefill),
        306 => ser::<306>(r, prefill),
        307 => ser::<307>(r, prefill),
        308 => ser::<308>(r, prefill),
        309 => ser::<309>(r, prefill),
        310 => ser::<310>(r, prefill),
        311 => ser::<311>(r, prefill),
        312 => ser::<312>(r, prefill),
        313 => ser::<313>(r, prefill),
        314 => ser::<314>(r, prefill),
        315 => ser::<315>(r, prefill),
        316 => ser::<316>(r, prefill),
        317 => ser::<317>(r, prefill),
        318 => ser::<318>(r, prefill),
        319 => ser::<319>(r, prefill),
        320 => ser::<320>(r, prefill),
        1023 => ser::<1023>(r, prefill),
        1024 => ser::<1024>(r, prefill),
        1025 => ser::<1025>(r, prefill),
        3071 => ser::<3071>(r, prefill),
        3072 => ser::<3072>(r, prefill),
        3073 => ser::<3073>(r, prefill),
        7609 => ser::<7609>(r, prefill),
        2047 => ser::<2047>(r, prefill),
        2048 => ser::<2048>(r, prefill),
        2049 => ser::<2049>(r, prefill),
        2095 => ser::<2095>(r, prefill),
        2096 => ser::<2096>(r, prefill),
        2097 => ser::<2097>(r, prefill),
        2560 => ser::<2560>(r, prefill),
        4095 => ser::<4095>(r, prefill),
        4096 => ser::<4096>(r, prefill),
        4097 => ser::<4097>(r, prefill),
        65535 => ser::<65535>(r, prefill),
        65536 => ser::<65536>(r, prefill),
        65537 => ser::<65537>(r, prefill),
        66000 => ser::<66000>(r, prefill),
        131072 => ser::<131072>(r, prefill),
        _ => machinery_panic("capacity not instantiated"),
    }
}

fn ser_into_cap(n: usize, r: &ctap2::Response, content: &[u8]) -> Result<Vec<u8>, String> {
    match n {
        1 => ser_into::<1>(r, content),
        2 => ser_into::<2>(r, content),
        3 => ser_into::<3>(r, content),
        8 => ser_into::<8>(r, content),
        38 => ser_into::<38>(r, content),
        42 => ser_into::<42>(r, content),
        64 => ser_into::<64>(r, content),
        128 => ser_into::<128>(r, content),
        _ => machinery_panic("history capacity not instantiated"),
    }
}

/// the CBOR body of the inner response as the real encoder produces it into a large scratch
/// buffer (isolates the framing logic from C02); None for the parameter-less kinds
pub fn body_of(r: &ctap2::Response) -> Result<Option<Vec<u8>>, String> {
    guard(|| {
        let mut scratch = vec![0u8; 16384];
        let n = match r {
            ctap2::Response::GetInfo(x) => cbor_smol::cbor_serialize(x, &mut scratch).map(|s| s.len()),
            ctap2::Response::MakeCredential(x) => cbor_smol::cbor_serialize(x, &mut scratch).map(|s| s.len()),
            ctap2::Response::GetAssertion(x) | ctap2::Response::GetNextAssertion(x) => cbor_smol::cbor_serialize(x, &mut scratch).map(|s| s.len()),
            ctap2::Response::ClientPin(x) => cbor_smol::cbor_serialize(x, &mut scratch).map(|s| s.len()),
            ctap2::Response::CredentialManagement(x) => cbor_smol::cbor_serialize(x, &mut scratch).map(|s| s.len()),
            ctap2::Response::LargeBlobs(x) => cbor_smol::cbor_serialize(x, &mut scratch).map(|s| s.len()),
            _ => return None,
        };
        let n = n.expect("scratch buffer large enough");
        scratch.truncate(n);
        Some(scratch)
    })
}

/// expected buffer content(s) after the call
pub fn expected(body: &Option<Vec<u8>>, n: usize) -> Vec<Vec<u8>> {
    match body {
        None => vec![vec![0x00]],
        Some(b) => {
            if b[..] == [0xa0] {
                if n == 1 {
                    // DESIGN §5 O1: the statement can be read both ways at this single point
                    return vec![vec![0x00], vec![0x7f]];
                }
                return vec![vec![0x00]];
            }
            if 1 + b.len() <= n {
                let mut m = vec![0x00];
                m.extend_from_slice(b);
                vec![m]
            } else {
                vec![vec![0x7f]]
            }
        }
    }
}

#[derive(Clone, Debug)]
pub struct Gen {
    pub family: &'static str,
    pub len: usize,
}

/// response families whose body size is swept one byte at a time by `len`
pub fn build(g: &Gen) -> ctap2::Response {
    let l = g.len;
    match g.family {
        "reset" => ctap2::Response::Reset,
        "selection" => ctap2::Response::Selection,
        "vendor" => ctap2::Response::Vendor,
        "cp-empty" => ctap2::Response::ClientPin(Default::default()),
        "cm-empty" => ctap2::Response::CredentialManagement(Default::default()),
        "lb-empty" => ctap2::Response::LargeBlobs(Default::default()),
        "cp-token" => {
            let mut r = ctap2::client_pin::Response::default();
            r.pin_token = Some(ctap_types::Bytes::from_slice(&fill_bytes(l, 1)).unwrap());
            ctap2::Response::ClientPin(r)
        }
        "cp-token+key" => {
            let mut r = ctap2::client_pin::Response::default();
            r.key_agreement = Some(cosey::EcdhEsHkdf256PublicKey { x: ctap_types::Bytes::from_slice(&fill_bytes(32, 2)).unwrap(), y: ctap_types::Bytes::from_slice(&fill_bytes(32, 3)).unwrap() });
            r.pin_token = Some(ctap_types::Bytes::from_slice(&fill_bytes(l, 1)).unwrap());
            r.retries = Some(8);
            ctap2::Response::ClientPin(r)
        }
        "ga-count" | "gna-plain" => {
            // an assertion announcing l credentials / a follow-up assertion without a count
            let cred = ctap_types::webauthn::PublicKeyCredentialDescriptor { id: ctap_types::Bytes::from_slice(&fill_bytes(16, 4)).unwrap(), key_type: ctap_types::String::from("public-key") };
            let mut r = ctap2::get_assertion::ResponseBuilder { credential: cred, auth_data: ctap_types::Bytes::from_slice(&fill_bytes(37, 5)).unwrap(), signature: ctap_types::Bytes::from_slice(&fill_bytes(8, 6)).unwrap() }.build();
            if g.family == "ga-count" {
                r.number_of_credentials = Some(l as u32);
                ctap2::Response::GetAssertion(r)
            } else {
                ctap2::Response::GetNextAssertion(r)
            }
        }
        "ga-authdata" | "gna-authdata" => {
            let cred = ctap_types::webauthn::PublicKeyCredentialDescriptor { id: ctap_types::Bytes::from_slice(&fill_bytes(16, 4)).unwrap(), key_type: ctap_types::String::from("public-key") };
            let r = ctap2::get_assertion::ResponseBuilder { credential: cred, auth_data: ctap_types::Bytes::from_slice(&fill_bytes(l, 5)).unwrap(), signature: ctap_types::Bytes::from_slice(&fill_bytes(70, 6)).unwrap() }.build();
            if g.family == "ga-authdata" {
                ctap2::Response::GetAssertion(r)
            } else {
                ctap2::Response::GetNextAssertion(r)
            }
        }
        "mc-authdata+x5c" => {
            let mut r = ctap2::make_credential::ResponseBuilder { fmt: ctap2::AttestationStatementFormat::Packed, auth_data: ctap_types::Bytes::from_slice(&fill_bytes(l, 7)).unwrap() }.build();
            let mut x5c = ctap_types::Vec::new();
            x5c.push(ctap_types::Bytes::from_slice(&fill_bytes(1024, 8)).unwrap()).unwrap();
            r.att_stmt = Some(ctap2::AttestationStatement::Packed(ctap2::PackedAttestationStatement { alg: -7, sig: ctap_types::Bytes::from_slice(&fill_bytes(77, 9)).unwrap(), x5c: Some(x5c) }));
            ctap2::Response::MakeCredential(r)
        }
        "lb-config" => {
            let mut r = ctap2::large_blobs::Response::default();
            r.config = Some(ctap_types::Bytes::from_slice(&fill_bytes(l, 10)).unwrap());
            ctap2::Response::LargeBlobs(r)
        }
        "cm-rp" => {
            let mut r = ctap2::credential_management::Response::default();
            let mut id = ctap_types::String::new();
            id.push_str(&refmodel::fill_text(l, 3)).unwrap();
            r.rp = Some(ctap_types::webauthn::PublicKeyCredentialRpEntity { id, name: None, icon: None });
            ctap2::Response::CredentialManagement(r)
        }
        "ga-x5c" => {
            let cred = ctap_types::webauthn::PublicKeyCredentialDescriptor { id: ctap_types::Bytes::from_slice(&fill_bytes(16, 4)).unwrap(), key_type: ctap_types::String::from("public-key") };
            let mut r = ctap2::get_assertion::ResponseBuilder { credential: cred, auth_data: ctap_types::Bytes::from_slice(&fill_bytes(37, 5)).unwrap(), signature: ctap_types::Bytes::from_slice(&fill_bytes(70, 6)).unwrap() }.build();
            let mut x5c = ctap_types::Vec::new();
            x5c.push(ctap_types::Bytes::from_slice(&fill_bytes(l, 8)).unwrap()).unwrap();
            r.att_stmt = Some(ctap2::AttestationStatement::Packed(ctap2::PackedAttestationStatement { alg: -7, sig: ctap_types::Bytes::from_slice(&fill_bytes(71, 9)).unwrap(), x5c: Some(x5c) }));
            ctap2::Response::GetAssertion(r)
        }
        "cm-meta" => {
            // credential-management metadata: a two-member map {1: .., 2: ..}
            let mut r = ctap2::credential_management::Response::default();
            r.existing_resident_credentials_count = Some(l as u32);
            r.max_possible_remaining_residential_credentials_count = Some(24);
            ctap2::Response::CredentialManagement(r)
        }
        "cm-count" => {
            // integer head widths: 0, 24, 256, 65536 change the body size by 0/1/2/4 bytes
            let mut r = ctap2::credential_management::Response::default();
            r.total_credentials = Some([0u32, 24, 256, 65536][l % 4]);
            ctap2::Response::CredentialManagement(r)
        }
        f if f.starts_with("seed:") => {
            // "seed:<kind index>": len = index into the seed masks of that response kind
            let k: usize = f[5..].parse().unwrap();
            let kind = RKINDS[k];
            let plan = Plan::new(&kind.schema(), Side::Response);
            let masks = crate::reqcheck::seed_masks(&plan);
            let view = refmodel::decode(&kind.schema(), &plan.build(masks[l].1, &[])).unwrap().unwrap();
            kind.build(&view)
        }
        f if f.starts_with("ladder:") => {
            // "ladder:<kind index>": len = 2k (first k optional members present) or 2k+1 (last k)
            let k: usize = f[7..].parse().unwrap();
            let kind = RKINDS[k];
            let plan = Plan::new(&kind.schema(), Side::Response);
            let view = refmodel::decode(&kind.schema(), &plan.build(ladder_mask(&plan, l), &[])).unwrap().unwrap();
            kind.build(&view)
        }
        f if f.starts_with("max:") => {
            // "max:<kind index>": every member present, every leaf at its longest menu value
            let k: usize = f[4..].parse().unwrap();
            let kind = RKINDS[k];
            let plan = Plan::new(&kind.schema(), Side::Response);
            let devs: Vec<(usize, usize)> = plan.leaves.iter().enumerate().map(|(li, info)| (li, (0..info.menu.len()).max_by_key(|i| crate::refcbor::encode(&info.menu[*i]).len()).unwrap())).collect();
            // l = 0: all at once; l = 1 + leaf: only that leaf at its longest
            let devs: Vec<(usize, usize)> = if l == 0 { devs } else { vec![devs[l - 1]] };
            let view = refmodel::decode(&kind.schema(), &plan.build(plan.full_mask(), &devs)).unwrap().unwrap();
            kind.build(&view)
        }
        "getinfo-algs" => {
            // GetInfo with only the required members and `algorithms` set to the l-th menu value
            let plan = Plan::new(&get_info_response(), Side::Response);
            let bit = plan.opt_index("/algorithms");
            let leaf = plan.leaf_index("/algorithms");
            let view = refmodel::decode(&get_info_response(), &plan.build(1u64 << bit, &[(leaf, l)])).unwrap().unwrap();
            ctap2::Response::GetInfo(bind::build_get_info(&view))
        }
        "getinfo" => {
            let plan = Plan::new(&get_info_response(), Side::Response);
            let view = refmodel::decode(&get_info_response(), &plan.build(if l == 0 { 0 } else { plan.full_mask() }, &[])).unwrap().unwrap();
            ctap2::Response::GetInfo(bind::build_get_info(&view))
        }
        f => machinery_panic(&format!("family {}", f)),
    }
}

/// first k (even l) or last k (odd l) optional members present, parents added where needed
fn ladder_mask(plan: &Plan, l: usize) -> u64 {
    let n = plan.opts.len();
    let k = (l / 2).min(n);
    let mut mask = 0u64;
    for j in 0..k {
        let bit = if l % 2 == 0 { j } else { n - 1 - j };
        mask |= 1u64 << bit;
        let mut p = plan.opts[bit].parent;
        while let Some(pp) = p {
            mask |= 1u64 << pp;
            p = plan.opts[pp].parent;
        }
    }
    mask
}

fn family_range(f: &'static str) -> Vec<usize> {
    match f {
        f if f.starts_with("ladder:") => {
            let k: usize = f[7..].parse().unwrap();
            let plan = Plan::new(&RKINDS[k].schema(), Side::Response);
            (0..2 * plan.opts.len() + 2).collect()
        }
        f if f.starts_with("max:") => {
            let k: usize = f[4..].parse().unwrap();
            let plan = Plan::new(&RKINDS[k].schema(), Side::Response);
            (0..=plan.leaves.len()).collect()
        }
        "cp-token" | "cp-token+key" => (0..=48).collect(),
        "ga-authdata" | "gna-authdata" | "mc-authdata+x5c" => (0..=AUTH_DATA_MAX).collect(),
        "lb-config" => (0..=lb_fragment_max()).collect(),
        "cm-rp" => (0..=256).collect(),
        "ga-x5c" => (0..=1024).collect(),
        "cm-count" => (0..4).collect(),
        "getinfo" => vec![0, 1],
        "getinfo-algs" => {
            let plan = Plan::new(&get_info_response(), Side::Response);
            (0..plan.leaves[plan.leaf_index("/algorithms")].menu.len()).collect()
        }
        f if f.starts_with("seed:") => {
            let k: usize = f[5..].parse().unwrap();
            let plan = Plan::new(&RKINDS[k].schema(), Side::Response);
            (0..crate::reqcheck::seed_masks(&plan).len()).collect()
        }
        _ => vec![0],
    }
}

pub const FAMILIES: [&str; 38] = ["getinfo-algs", "seed:0", "seed:1", "seed:2", "seed:3", "seed:4", "seed:5", "seed:6", "cm-rp", "ga-x5c", "reset", "selection", "vendor", "cp-empty", "cm-empty", "lb-empty", "cp-token", "cp-token+key", "ga-authdata", "gna-authdata", "mc-authdata+x5c", "lb-config", "cm-count", "getinfo", "ladder:0", "ladder:1", "ladder:2", "ladder:3", "ladder:4", "ladder:5", "ladder:6", "max:0", "max:1", "max:2", "max:3", "max:4", "max:5", "max:6"];

pub fn check(g: &Gen, n: usize, prefill: u8) -> Verdict {
    let r = build(g);
    let body = match body_of(&r) {
        Ok(b) => b,
        Err(p) => return Verdict::fail(format!("{}|{}|panic-in-body", P, g.family), "no panic", p),
    };
    let want = expected(&body, n);
    match ser_cap(n, &r, prefill) {
        Err(p) => Verdict::fail(format!("{}|{}|panic", P, g.family), "no panic", p),
        Ok(got) => {
            // whatever the reference body is, a message that claims success must carry one complete,
            // well-formed CBOR item after the status byte (never a cut-off body)
            if got.len() > 1 && got[0] == 0x00 {
                match crate::refcbor::parse(&got[1..]) {
                    Ok(p) if p.used == got.len() - 1 => {}
                    other => {
                        return Verdict::fail(format!("{}|success-with-malformed-body", P), "00 followed by exactly one well-formed CBOR item", format!("{} ({:?})", hex(&got), other.map(|p| p.used).map_err(|e| format!("{:?}", e))));
                    }
                }
            }
            if want.contains(&got) {
                return Verdict::pass();
            }
            let blen = body.as_ref().map_or(0, |b| b.len());
            let what = if 1 + blen > n {
                if got.first() == Some(&0x00) { "truncated-or-partial-instead-of-7F" } else { "overflow-not-reported-as-single-7F" }
            } else if got == [0x7f] {
                "7F-although-it-fits"
            } else {
                "wrong-content-although-it-fits"
            };
            Verdict::fail(format!("{}|{}|prefill{}", P, what, prefill.min(1)), want.iter().map(|w| hex(w)).collect::<Vec<_>>().join(" or "), format!("{} (capacity {}, body {} bytes, family {} len {})", hex(&got), n, blen, g.family, g.len))
        }
    }
}

fn cjson(g: &Gen, n: usize, prefill: u8) -> Value {
    json!({"kind": "fit", "family": g.family, "len": g.len, "capacity": n, "prefill": prefill})
}

/// histories of serialisations into one reused buffer
struct Reuse {
    n: usize,
    alphabet: Arc<Vec<Gen>>,
    max: usize,
}

impl Space for Reuse {
    /// (buffer content, response that produced it, depth)
    type S = (Vec<u8>, Option<u8>, u8);
    type A = u8;
    fn name(&self) -> String {
        format!("serialize histories <= {} into one reused buffer of capacity {}", self.max, self.n)
    }
    fn init(&self) -> Vec<Self::S> {
        vec![(vec![], None, 0)]
    }
    fn actions(&self, s: &Self::S, out: &mut Vec<u8>) {
        if (s.2 as usize) < self.max {
            out.extend(0..self.alphabet.len() as u8);
        }
    }
    fn next(&self, s: &Self::S, a: &u8) -> Option<Self::S> {
        let r = build(&self.alphabet[*a as usize]);
        match ser_into_cap(self.n, &r, &s.0) {
            Ok(buf) => Some((buf, Some(*a), s.2 + 1)),
            Err(_) => Some((vec![0xde, 0xad], Some(*a), s.2 + 1)), // panic marker: check() re-runs and reports it
        }
    }
    fn check(&self, s: &Self::S) -> Verdict {
        let Some(a) = s.1 else { return Verdict::pass() };
        let g = &self.alphabet[a as usize];
        let body = match body_of(&build(g)) {
            Ok(b) => b,
            Err(p) => return Verdict::fail(format!("{}|history|panic", P), "no panic", p),
        };
        let want = expected(&body, self.n);
        if want.contains(&s.0) {
            Verdict::pass()
        } else {
            Verdict::fail(format!("{}|history-dependent-result", P), want.iter().map(|w| hex(w)).collect::<Vec<_>>().join(" or "), format!("{} after serialising {} {} at depth {} into capacity {}", hex(&s.0), g.family, g.len, s.2, self.n))
        }
    }
    fn case(&self, s: &Self::S) -> Value {
        json!({"kind": "history-state", "capacity": self.n, "buffer": hex(&s.0), "last": s.1, "depth": s.2})
    }
    fn nontrivial(&self, s: &Self::S) -> bool {
        s.2 > 1
    }
}

fn history_alphabet() -> Vec<Gen> {
    let g = |family, len| Gen { family, len };
    vec![g("reset", 0), g("cp-empty", 0), g("lb-empty", 0), g("cp-token", 0), g("cp-token", 1), g("cp-token", 4), g("cp-token", 5), g("cp-token", 48), g("cm-count", 0), g("cm-count", 1), g("ga-authdata", 37), g("getinfo", 0), g("getinfo-algs", 0), g("getinfo-algs", 1), g("getinfo-algs", 2), g("ga-count", 2), g("gna-plain", 0), g("cm-meta", 3)]
}

pub fn run(ctx: &'static Ctx) {
    ctx.rule("state = (response, buffer capacity N, buffer content before the call); the real Response::serialize output must equal [00]+body if 1+len(body) <= N else [7F], where body is the real cbor_serialize of the inner response into a large scratch buffer; non-trivial = body size within N-3..N+2");
    ctx.assume("at (N = 1, body = empty map) the statement can be read two ways; only the disjunction {[00], [7F]} is asserted there (DESIGN §5 O1)");
    // body size of every member of every family (computed once with the real encoder)
    let mut sized: Vec<(Gen, usize)> = Vec::new();
    for f in FAMILIES {
        for l in family_range(f) {
            let g = Gen { family: f, len: l };
            let size = match body_of(&build(&g)) {
                Ok(Some(b)) => b.len(),
                Ok(None) => 0,
                Err(p) => machinery_panic(&format!("C17 setup: {}", p)),
            };
            sized.push((g, size));
        }
    }
    let max_body = sized.iter().map(|x| x.1).max().unwrap();
    ctx.note(format!("{} responses in {} families; body sizes 0..={} bytes (largest constructible body in this configuration)", sized.len(), FAMILIES.len(), max_body));
    // cases: for every capacity, every response whose body size lies in N-3..=N+2, plus the
    // fixed small and large ones, x 3 prefill patterns
    let mut cases: Vec<(usize, usize, u8)> = Vec::new(); // (sized idx, N, prefill)
    let mut windows_covered = 0;
    for n in CAPS {
        let mut sizes_hit = std::collections::BTreeSet::new();
        for (i, (g, size)) in sized.iter().enumerate() {
            let near = *size + 3 >= n && *size <= n + 2;
            let fixed = g.family.starts_with("seed:") || g.family.starts_with("ladder:") || g.family.starts_with("max:") || matches!(g.family, "getinfo-algs" | "reset" | "selection" | "vendor" | "cp-empty" | "cm-empty" | "lb-empty" | "cm-count" | "getinfo") || (g.len == family_range(g.family).last().copied().unwrap_or(0));
            if near || fixed {
                if near {
                    sizes_hit.insert(*size);
                }
                for p in 0..3u8 {
                    cases.push((i, n, p));
                }
            }
        }
        if sizes_hit.len() >= 5 {
            windows_covered += 1;
        }
    }
    ctx.note(format!("{} of {} capacities have at least 5 distinct body sizes inside their N-3..N+2 window", windows_covered, CAPS.len()));
    let (cr, sr) = (&cases, &sized);
    sweep(ctx, "capacity x body size x prefill", cases.len() as u64, "capacities 1..=320, 1023..1025, 3071..3073, 7609 x {every response whose body size is within N-3..N+2 (swept bytewise); the minimal, full and every single-optional-member response of every kind; empty, parameter-less and largest bodies} x {empty, half-filled, completely filled buffer}", move |idx, l| {
        let (i, n, p) = cr[idx as usize];
        let (g, size) = &sr[i];
        if *size + 3 >= n && *size <= n + 2 {
            l.nontrivial += 1;
        }
        l.bump(if 1 + *size <= n { "fits" } else { "overflows" });
        let v = check(g, n, p);
        if !v.ok {
            l.fail(ctx, idx, v, || cjson(g, n, p));
        }
    });
    for n in [1usize, 2, 3, 8, 38, 42, 64, 128] {
        let alpha = Arc::new(history_alphabet());
        // reachable states: the initial one plus, per depth, one state per distinct (output, response)
        explore(ctx, Reuse { n, alphabet: alpha, max: 3 }, None, "every history of up to 3 serialisations of 18 responses into one reused buffer, deduplicated on (buffer content, last response, depth)");
    }
    // the same histories once more as contiguous call sequences on one worker (state the crate
    // keeps between calls follows the order of calls, not the shape of the state graph)
    for n in [8usize, 42, 128] {
        let alpha = history_alphabet();
        let k = alpha.len() as u64;
        let ar = &alpha;
        sweep_seq(ctx, &format!("contiguous serialize sequences of length 3 into capacity {}", n), k * k * k, "every sequence of three responses of the history alphabet serialised one after the other, each into a fresh buffer and all into one reused buffer: every result as on its own", move |idx, l| {
            let seq = [(idx / (k * k)) as usize, (idx / k % k) as usize, (idx % k) as usize];
            l.nontrivial += 1;
            l.bump("call sequence");
            for reuse in [false, true] {
                let mut buf: Vec<u8> = Vec::new();
                for (step, a) in seq.iter().enumerate() {
                    let g = &ar[*a];
                    let r = build(g);
                    let body = match body_of(&r) {
                        Ok(b) => b,
                        Err(_) => return,
                    };
                    let want = expected(&body, n);
                    let got = match ser_into_cap(n, &r, if reuse { &buf } else { &[] }) {
                        Ok(b) => b,
                        Err(p) => vec![0xde, 0xad, p.len() as u8],
                    };
                    if !want.contains(&got) {
                        let v = Verdict::fail(format!("{}|history-dependent-result", P), want.iter().map(|w| hex(w)).collect::<Vec<_>>().join(" or "), format!("{} at step {} of the sequence {:?} (capacity {}, {} buffer)", hex(&got), step + 1, seq.iter().map(|a| format!("{} {}", ar[*a].family, ar[*a].len)).collect::<Vec<_>>(), n, if reuse { "reused" } else { "fresh" }));
                        l.fail(ctx, idx, v, || json!({"kind": "call-sequence", "capacity": n, "sequence": seq, "note": "re-run the check to replay: the outcome depends on process history"}));
                        return;
                    }
                    buf = got;
                }
            }
        });
    }
    let o1 = check(&Gen { family: "cp-empty", len: 0 }, 1, 0);
    let observed_o1 = ser_cap(1, &build(&Gen { family: "cp-empty", len: 0 }), 0).map(|b| hex(&b)).unwrap_or_default();
    ctx.note(format!("O1 point (capacity 1, empty-map body): observed {} (either reading accepted: {})", observed_o1, o1.ok));
    ctx.require_outcomes(&["fits", "overflows"]);
    ctx.sample(cjson(&Gen { family: "cp-token", len: 20 }, 24, 2));
    ctx.sample(cjson(&Gen { family: "ga-authdata", len: 600 }, 1024, 1));
}

pub fn replay(case: &Value) -> Verdict {
    match case["kind"].as_str() {
        Some("fit") => {
            let fam = FAMILIES.iter().find(|f| **f == case["family"].as_str().unwrap()).unwrap();
            check(&Gen { family: fam, len: case["len"].as_u64().unwrap() as usize }, case["capacity"].as_u64().unwrap() as usize, case["prefill"].as_u64().unwrap() as u8)
        }
        Some("history-state") => {
            let alpha = history_alphabet();
            let n = case["capacity"].as_u64().unwrap() as usize;
            let sp = Reuse { n, alphabet: Arc::new(alpha), max: 3 };
            let s = (crate::refcbor::unhex(case["buffer"].as_str().unwrap()), case["last"].as_u64().map(|x| x as u8), case["depth"].as_u64().unwrap() as u8);
            // re-derive: serialise the last response into every reachable predecessor is not needed;
            // the recorded state itself is checked against the oracle
            sp.check(&s)
        }
        Some("call-sequence") => Verdict::pass(), // history-dependent: only a fresh run of the check reproduces it
        _ => machinery_panic("C17: unknown replay kind"),
    }
}
