//! C18 — protocol identifier tables are exact: every listed name/number, nothing else.

use crate::core::*;
use crate::refcbor::{encode, hex, V};
use crate::spec::*;
use crate::subject::*;
use ctap_types::ctap1::ControlByte;
use ctap_types::ctap2::client_pin::{Permissions, PinV1Subcommand};
use ctap_types::ctap2::credential_management::{CredentialProtectionPolicy, Subcommand};
use ctap_types::ctap2::get_info::{Extension, Transport, Version};
use ctap_types::ctap2::{AttestationStatementFormat, Error};
use serde_json::{json, Value};

const P: &str = "C18";

/// identifiers and member names used elsewhere in CTAP / WebAuthn / the IANA registries
const VOCABULARY: [&str; 118] = [
    // getInfo option ids
    "rk", "up", "uv", "plat", "clientPin", "credMgmt", "credentialMgmtPreview", "largeBlobs", "pinUvAuthToken", "ep", "bioEnroll", "userVerificationMgmtPreview", "uvBioEnroll", "authnrCfg", "uvAcfg", "noMcGaPermissionsWithClientPin", "setMinPINLength", "makeCredUvNotRqd", "alwaysUv",
    // extension identifiers (CTAP and the WebAuthn registry)
    "credProtect", "credBlob", "hmac-secret", "hmac-secret-mc", "largeBlobKey", "largeBlob", "minPinLength", "thirdPartyPayment", "payment", "prf", "credProps", "appid", "appidExclude", "uvm", "txAuthSimple", "txAuthGeneric", "authnSel", "exts", "uvi", "loc", "biometricPerfBounds", "devicePubKey",
    // transports
    "usb", "nfc", "ble", "smart-card", "hybrid", "internal", "cable", "lightning", "bt",
    // versions
    "U2F_V2", "U2F_V1", "U2F", "FIDO_2_0", "FIDO_2_1_PRE", "FIDO_2_1", "FIDO_2_2", "FIDO_2_3", "FIDO_2", "FIDO2", "FIDO_2_1_POST", "CTAP2", "CTAP2_1", "CTAP1",
    // attestation statement formats (IANA) and conveyance words
    "packed", "tpm", "android-key", "android-safetynet", "fido-u2f", "none", "apple", "compound", "self", "direct", "indirect", "enterprise", "basic", "attca", "anonca",
    // member names
    "versions", "extensions", "aaguid", "options", "maxMsgSize", "pinUvAuthProtocols", "transports", "algorithms", "certifications", "attestationFormats", "fmt", "authData", "attStmt", "epAtt", "alg", "sig", "x5c", "id", "type", "name", "displayName", "icon", "public-key", "publicKey", "rpId",
    // certification names
    "FIDO", "CC-EAL", "FIPS-CMVP-2", "FIPS-CMVP-3", "FIPS-CMVP-2-PHY", "FIPS-CMVP-3-PHY",
    // serde / Rust-side words
    "None", "Packed", "Nfc", "Usb", "CredProtect", "HmacSecret", "LargeBlobKey", "ThirdPartyPayment",
];

/// string enumerations: (name, specification spellings)
const STRING_ENUMS: [(&str, &[&str]); 4] = [("Version", &VERSIONS), ("Extension", &EXTENSIONS), ("Transport", &TRANSPORTS), ("AttestationStatementFormat", &FORMATS)];

/// outcome of presenting spelling `s` to enumeration `e`: Some(index of the variant it maps to,
/// as the spelling the variant converts back to) or None when rejected; through TryFrom and CBOR
fn present(e: &str, s: &str) -> Result<(Option<String>, Option<String>), String> {
    macro_rules! go {
        ($t:ty) => {{
            let a = <$t>::try_from(s).ok().map(|v| <&str>::from(v).to_string());
            let bytes = encode(&V::t(s));
            let b = match cbor_smol::cbor_deserialize::<$t>(&bytes) {
                Ok(v) => {
                    let mut buf = [0u8; 128];
                    let out = cbor_smol::cbor_serialize(&v, &mut buf).expect("encodes");
                    match crate::refcbor::parse(out).map(|p| p.value) {
                        Ok(V::T(t)) => Some(String::from_utf8_lossy(&t).to_string()),
                        other => Some(format!("<not a text string: {:?}>", other)),
                    }
                }
                Err(_) => None,
            };
            (a, b)
        }};
    }
    guard(|| match e {
        "Version" => go!(Version),
        "Extension" => go!(Extension),
        "Transport" => go!(Transport),
        _ => go!(AttestationStatementFormat),
    })
}

fn check_string(e: &str, table: &[&str], s: &str) -> Verdict {
    let want = if table.contains(&s) { Some(s.to_string()) } else { None };
    if e == "AttestationStatementFormat" {
        // the same table as a platform's preference list consults it
        let t = crate::reqcheck::Target::Alone("formatsPreference");
        let got = t.observe_bytes(&encode(&V::A(vec![V::t(s)])));
        let exp = Dec::Ok(V::M(vec![(V::t("known"), V::A(if want.is_some() { vec![V::t(s)] } else { vec![] })), (V::t("unknown"), V::Bool(want.is_none()))]));
        if got != exp {
            return Verdict::fail(format!("{}|{}|through-preference-list", P, e), exp.show(), got.show());
        }
    }
    match present(e, s) {
        Err(p) => Verdict::fail(format!("{}|{}|panic", P, e), "no panic", p),
        Ok((a, b)) => {
            if a == want && b == want {
                Verdict::pass()
            } else {
                let what = if want.is_none() { "accepts-unlisted-spelling" } else { "listed-spelling-wrong" };
                Verdict::fail(format!("{}|{}|{}", P, e, what), format!("{:?} for {:?}", want, s), format!("TryFrom: {:?}, CBOR: {:?}", a, b))
            }
        }
    }
}

/// every valid spelling plus every single-character substitution / insertion / deletion over
/// printable ASCII, every case flip, every proper prefix, every one-character extension, ""
fn neighbours(table: &[&str]) -> Vec<String> {
    let mut out: Vec<String> = vec![String::new()];
    let printable: Vec<char> = (0x20u8..0x7f).map(|b| b as char).collect();
    for w in table {
        let c: Vec<char> = w.chars().collect();
        out.push(w.to_string());
        out.push(w.to_uppercase());
        out.push(w.to_lowercase());
        for i in 0..c.len() {
            // deletion
            let mut d = c.clone();
            d.remove(i);
            out.push(d.iter().collect());
            // prefix
            out.push(c[..i].iter().collect());
            // case flip of one character
            let mut f = c.clone();
            f[i] = if f[i].is_ascii_lowercase() { f[i].to_ascii_uppercase() } else { f[i].to_ascii_lowercase() };
            out.push(f.iter().collect());
            for p in &printable {
                let mut s = c.clone();
                s[i] = *p;
                out.push(s.iter().collect());
            }
        }
        for i in 0..=c.len() {
            for p in &printable {
                let mut s = c.clone();
                s.insert(i, *p);
                out.push(s.iter().collect());
            }
        }
        // repetitions: doubled word, repeated head / tail of every length, every '_' or '-' separated
        // token doubled in place
        out.push(format!("{}{}", w, w));
        for k in 1..c.len() {
            let head: String = c[..k].iter().collect();
            let tail: String = c[c.len() - k..].iter().collect();
            out.push(format!("{}{}", head, w));
            out.push(format!("{}{}", w, tail));
            out.push(format!("{}{}{}", w, tail, tail));
        }
        for sep in ['_', '-'] {
            let toks: Vec<&str> = w.split(sep).collect();
            if toks.len() > 1 {
                for i in 0..toks.len() {
                    let mut t2: Vec<&str> = Vec::new();
                    for (j, t) in toks.iter().enumerate() {
                        t2.push(t);
                        if i == j {
                            t2.push(t);
                        }
                    }
                    out.push(t2.join(&sep.to_string()));
                    let mut t3: Vec<&str> = toks.clone();
                    t3.remove(i);
                    out.push(t3.join(&sep.to_string()));
                }
            }
        }
        // long strings (scratch buffers, fixed-size folding): padded, doubled lower case, repeated
        for n in [15usize, 16, 17, 31, 32, 33, 64, 255, 256, 1000] {
            out.push(format!("{}{}", w, "x".repeat(n)));
            out.push(format!("{}{}", "Y".repeat(n), w));
            out.push("q".repeat(n));
            out.push(w.to_lowercase().repeat(n / w.len() + 2));
        }
        // a character of every UTF-8 width before, after and inside the spelling
        for ch in ['\u{e9}', '\u{20ac}', '\u{4e2d}', '\u{1f600}', '\u{10ffff}'] {
            for i in 0..=c.len() {
                let mut x = c.clone();
                x.insert(i, ch);
                out.push(x.iter().collect());
            }
        }
        // non-ASCII and embedded NUL variants
        out.push(format!("{}\u{0}", w));
        out.push(format!("{}\u{e9}", w));
        out.push(format!(" {}", w));
    }
    out.sort();
    out.dedup();
    out
}

/// numeric enumerations through CBOR: integer n (unsigned or negative) -> accepted value
fn present_num(e: &str, v: &V) -> Result<Option<u64>, String> {
    let bytes = encode(v);
    macro_rules! go {
        ($t:ty) => {{
            match cbor_smol::cbor_deserialize::<$t>(&bytes) {
                Ok(x) => {
                    let mut buf = [0u8; 16];
                    let out = cbor_smol::cbor_serialize(&x, &mut buf).expect("encodes");
                    match crate::refcbor::parse(out).map(|p| p.value) {
                        Ok(V::U(n)) if n == x.clone() as u64 => Some(n),
                        _ => Some(u64::MAX),
                    }
                }
                Err(_) => None,
            }
        }};
    }
    guard(|| match e {
        "PinV1Subcommand" => go!(PinV1Subcommand),
        "cm.Subcommand" => go!(Subcommand),
        _ => go!(CredentialProtectionPolicy),
    })
}

const NUM_ENUMS: [(&str, &[u64]); 3] = [("PinV1Subcommand", &PIN_SUBCOMMANDS), ("cm.Subcommand", &CM_SUBCOMMANDS), ("CredentialProtectionPolicy", &CRED_PROTECT)];

fn check_num(e: &str, table: &[u64], v: &V) -> Verdict {
    let want = match v {
        V::U(n) if table.contains(n) => Some(*n),
        _ => None,
    };
    match present_num(e, v) {
        Err(p) => Verdict::fail(format!("{}|{}|panic", P, e), "no panic", p),
        Ok(got) if got == want => Verdict::pass(),
        Ok(got) => Verdict::fail(format!("{}|{}|{}", P, e, if want.is_none() { "accepts-unlisted-number" } else { "listed-number-wrong" }), format!("{:?} for {:?}", want, v), format!("{:?}", got)),
    }
}

fn num_probes() -> Vec<V> {
    let mut v: Vec<V> = (0..=300u64).map(V::U).collect();
    for x in [65535u64, 65536, 65537, u32::MAX as u64, 1 << 32, (1 << 32) + 1, (1 << 32) + 3, i64::MAX as u64, 1 << 63, u64::MAX] {
        v.push(V::U(x));
    }
    for x in 0..=1030u64 {
        v.push(V::N(x));
    }
    for base in [65536u64, 1 << 32] {
        for d in 0..=10 {
            v.push(V::N(base - d));
            v.push(V::N(base + d));
        }
    }
    v.push(V::N(255));
    v.push(V::N(u64::MAX));
    // values congruent to listed ones modulo 256 / 65536 / 2^32 (narrowing casts)
    for base in 1..=9u64 {
        for m in [256u64, 65536, 1 << 32] {
            v.push(V::U(base + m));
        }
    }
    v
}

fn check_byte_tables(b: u8) -> Verdict {
    let r = guard(|| {
        // credential protection policy: TryFrom<u8>
        let want = CRED_PROTECT.contains(&(b as u64));
        match CredentialProtectionPolicy::try_from(b) {
            Ok(p) if want && p as u8 == b => {}
            Err(_) if !want => {}
            other => return Some((format!("CredentialProtectionPolicy::try_from({})", b), format!("{:?}", other))),
        }
        // U2F control bytes
        let want = U2F_CONTROL.contains(&b);
        match ControlByte::try_from(b) {
            Ok(c) if want && c as u8 == b => {}
            Err(_) if !want => {}
            other => return Some((format!("ControlByte::try_from({})", b), format!("{:?}", other))),
        }
        // permission bits: a byte is a valid permission set iff it only uses the six specified bits
        let all: u8 = PERMISSIONS.iter().map(|p| p.1).sum();
        let want = b & !all == 0;
        match Permissions::from_bits(b) {
            Some(p) if want && p.bits() == b => {}
            None if !want => {}
            other => return Some((format!("Permissions::from_bits({:#x})", b), format!("{:?}", other))),
        }
        None
    });
    match r {
        Ok(None) => Verdict::pass(),
        Ok(Some((what, got))) => Verdict::fail(format!("{}|byte-table|{}", P, what.split('(').next().unwrap_or("")), format!("{} per the specification table", what), got),
        Err(p) => Verdict::fail(format!("{}|byte-table|panic", P), "no panic", p),
    }
}

/// named constants against the specification numbers
fn check_named() -> Vec<Verdict> {
    let mut out = Vec::new();
    let perms: [(&str, Permissions); 6] = [
        ("mc", Permissions::MAKE_CREDENTIAL),
        ("ga", Permissions::GET_ASSERTION),
        ("cm", Permissions::CREDENTIAL_MANAGEMENT),
        ("be", Permissions::BIO_ENROLLMENT),
        ("lbw", Permissions::LARGE_BLOB_WRITE),
        ("acfg", Permissions::AUTHENTICATOR_CONFIGURATION),
    ];
    for (n, p) in perms {
        let want = PERMISSIONS.iter().find(|x| x.0 == n).unwrap().1;
        if p.bits() != want {
            out.push(Verdict::fail(format!("{}|Permissions|{}", P, n), format!("{:#x}", want), format!("{:#x}", p.bits())));
        }
    }
    if Permissions::all().bits() != 0x3f {
        out.push(Verdict::fail(format!("{}|Permissions|all", P), "0x3f", format!("{:#x}", Permissions::all().bits())));
    }
    macro_rules! st {
        ($($v:ident),*) => { vec![$((stringify!($v), Error::$v as u8)),*] };
    }
    let statuses = st!(
        Success, InvalidCommand, InvalidParameter, InvalidLength, InvalidSeq, Timeout, ChannelBusy, LockRequired, InvalidChannel, CborUnexpectedType, InvalidCbor, MissingParameter,
        LimitExceeded, UnsupportedExtension, FingerprintDatabaseFull, LargeBlobStorageFull, CredentialExcluded, Processing, InvalidCredential, UserActionPending, OperationPending,
        NoOperations, UnsupportedAlgorithm, OperationDenied, KeyStoreFull, NotBusy, NoOperationPending, UnsupportedOption, InvalidOption, KeepaliveCancel, NoCredentials,
        UserActionTimeout, NotAllowed, PinInvalid, PinBlocked, PinAuthInvalid, PinAuthBlocked, PinNotSet, PinRequired, PinPolicyViolation, PinTokenExpired, RequestTooLarge,
        ActionTimeout, UpRequired, UvBlocked, IntegrityFailure, InvalidSubcommand, UvInvalid, UnauthorizedPermission, Other, SpecLast, ExtensionFirst, ExtensionLast, VendorFirst,
        VendorLast
    );
    if statuses.len() != STATUS_TABLE.len() {
        out.push(Verdict::fail(format!("{}|status|count", P), format!("{}", STATUS_TABLE.len()), format!("{}", statuses.len())));
    }
    for (name, got) in &statuses {
        match STATUS_TABLE.iter().find(|x| x.0 == *name) {
            Some((_, want)) if want == got => {}
            Some((_, want)) => out.push(Verdict::fail(format!("{}|status|{}", P, name), format!("{:#04x}", want), format!("{:#04x}", got))),
            None => out.push(Verdict::fail(format!("{}|status|{}", P, name), "listed in the specification table", "not listed")),
        }
    }
    for (i, a) in statuses.iter().enumerate() {
        for b in &statuses[i + 1..] {
            if a.1 == b.1 {
                out.push(Verdict::fail(format!("{}|status|shared-number", P), "distinct numbers", format!("{} and {} are both {:#04x}", a.0, b.0, a.1)));
            }
        }
    }
    // numeric variants `as u8`
    let pins = [
        (PinV1Subcommand::GetRetries as u8, 1u8),
        (PinV1Subcommand::GetKeyAgreement as u8, 2),
        (PinV1Subcommand::SetPin as u8, 3),
        (PinV1Subcommand::ChangePin as u8, 4),
        (PinV1Subcommand::GetPinToken as u8, 5),
        (PinV1Subcommand::GetPinUvAuthTokenUsingUvWithPermissions as u8, 6),
        (PinV1Subcommand::GetUVRetries as u8, 7),
        (PinV1Subcommand::GetPinUvAuthTokenUsingPinWithPermissions as u8, 9),
        (Subcommand::GetCredsMetadata as u8, 1),
        (Subcommand::EnumerateRpsBegin as u8, 2),
        (Subcommand::EnumerateRpsGetNextRp as u8, 3),
        (Subcommand::EnumerateCredentialsBegin as u8, 4),
        (Subcommand::EnumerateCredentialsGetNextCredential as u8, 5),
        (Subcommand::DeleteCredential as u8, 6),
        (Subcommand::UpdateUserInformation as u8, 7),
        (CredentialProtectionPolicy::Optional as u8, 1),
        (CredentialProtectionPolicy::OptionalWithCredentialIdList as u8, 2),
        (CredentialProtectionPolicy::Required as u8, 3),
        (ControlByte::EnforceUserPresenceAndSign as u8, 3),
        (ControlByte::CheckOnly as u8, 7),
        (ControlByte::DontEnforceUserPresenceAndSign as u8, 8),
    ];
    for (i, (got, want)) in pins.iter().enumerate() {
        if got != want {
            out.push(Verdict::fail(format!("{}|named-number|#{}", P, i), format!("{}", want), format!("{}", got)));
        }
    }
    // string variants both ways
    let strs: Vec<(&str, String)> = vec![
        ("FIDO_2_0", <&str>::from(Version::Fido2_0).into()),
        ("FIDO_2_1", <&str>::from(Version::Fido2_1).into()),
        ("FIDO_2_1_PRE", <&str>::from(Version::Fido2_1Pre).into()),
        ("U2F_V2", <&str>::from(Version::U2fV2).into()),
        ("credProtect", <&str>::from(Extension::CredProtect).into()),
        ("hmac-secret", <&str>::from(Extension::HmacSecret).into()),
        ("largeBlobKey", <&str>::from(Extension::LargeBlobKey).into()),
        ("thirdPartyPayment", <&str>::from(Extension::ThirdPartyPayment).into()),
        ("nfc", <&str>::from(Transport::Nfc).into()),
        ("usb", <&str>::from(Transport::Usb).into()),
        ("none", <&str>::from(AttestationStatementFormat::None).into()),
        ("packed", <&str>::from(AttestationStatementFormat::Packed).into()),
    ];
    for (want, got) in &strs {
        if want != got {
            out.push(Verdict::fail(format!("{}|named-spelling|{}", P, want), want.to_string(), got.clone()));
        }
    }
    out
}

pub fn run(ctx: &'static Ctx) {
    ctx.rule("state = (enumeration, presented spelling or number); accepted iff listed in the specification table, maps back to the same spelling / number, through TryFrom and through the CBOR decoder and encoder; non-trivial = not a listed identifier (the universally quantified negative)");
    // strings
    let mut cases: Vec<(usize, String)> = Vec::new();
    for (i, (_, table)) in STRING_ENUMS.iter().enumerate() {
        for s in neighbours(table) {
            cases.push((i, s));
        }
        // the protocol's other vocabulary (option ids, member names, registered WebAuthn / IANA
        // identifiers) and every prefix of a valid spelling continued by a common ending
        for w in VOCABULARY {
            cases.push((i, w.to_string()));
            cases.push((i, w.to_uppercase()));
            cases.push((i, w.to_lowercase()));
        }
        for w in table.iter() {
            for k in 1..=w.len() {
                for end in ["s", "S", "Key", "Keys", "key", "ID", "Id", "_PRE", "_V2", "_0", "_1", "_2", "-key", "-secret", "Protect", "Payment", "Blob", "Blobs", "ed", "-u2f", "1", "2"] {
                    cases.push((i, format!("{}{}", &w[..k], end)));
                }
            }
        }
        // spellings of the other enumerations must be rejected too
        for (j, (_, other)) in STRING_ENUMS.iter().enumerate() {
            if i != j {
                for s in other.iter() {
                    cases.push((i, s.to_string()));
                }
            }
        }
    }
    let cr = &cases;
    sweep(ctx, "string identifiers and all their 1-edit neighbours", cases.len() as u64, "every valid spelling, every single-character substitution / insertion / deletion over printable ASCII, case flips, prefixes, one-character extensions, empty string, spellings of the other tables", move |idx, l| {
        let (e, s) = &cr[idx as usize];
        let (name, table) = STRING_ENUMS[*e];
        let listed = table.contains(&s.as_str());
        if !listed {
            l.nontrivial += 1;
        }
        l.bump(if listed { "listed spelling" } else { "unlisted spelling" });
        let v = check_string(name, table, s);
        if !v.ok {
            l.fail(ctx, idx, v, || json!({"kind": "spelling", "enum": name, "spelling": s}));
        }
    });
    {
        // every pair of single-character substitutions of every spelling (printable ASCII)
        let mut spaces: Vec<(usize, String, u64)> = Vec::new();
        for (i, (_, table)) in STRING_ENUMS.iter().enumerate() {
            for w in table.iter() {
                let n = w.len() as u64;
                spaces.push((i, w.to_string(), n * (n - 1) / 2 * 95 * 95));
            }
        }
        for (e, w, total) in spaces {
            let (name, table) = STRING_ENUMS[e];
            let wb = w.as_bytes().to_vec();
            let n = wb.len() as u64;
            sweep(ctx, &format!("two substitutions in {:?} ({})", w, name), total, "every pair of positions x 95 x 95 printable ASCII replacements", move |idx, l| {
                let pair = idx / (95 * 95);
                let (a, b) = (0x20 + ((idx / 95) % 95) as u8, 0x20 + (idx % 95) as u8);
                let mut i = 0u64;
                let mut rem = pair;
                while rem >= n - 1 - i {
                    rem -= n - 1 - i;
                    i += 1;
                }
                let j = i + 1 + rem;
                let mut s = wb.clone();
                s[i as usize] = a;
                s[j as usize] = b;
                let s = String::from_utf8(s).unwrap();
                let listed = table.contains(&s.as_str());
                if !listed {
                    l.nontrivial += 1;
                }
                l.bump(if listed { "listed spelling" } else { "unlisted spelling" });
                let v = check_string(name, table, &s);
                if !v.ok {
                    l.fail(ctx, idx, v, || json!({"kind": "spelling", "enum": name, "spelling": s}));
                }
            });
        }
    }
    // a byte string carrying the octets of a spelling is not the identifier (wrong CBOR type)
    let mut bcases: Vec<(usize, String)> = Vec::new();
    for (i, (_, table)) in STRING_ENUMS.iter().enumerate() {
        for s in table.iter() {
            bcases.push((i, s.to_string()));
        }
        bcases.push((i, String::new()));
    }
    let br = &bcases;
    sweep(ctx, "spellings presented as CBOR byte strings", bcases.len() as u64, "every valid spelling of every string enumeration encoded as a byte string instead of a text string", move |idx, l| {
        let (e, s) = &br[idx as usize];
        let (name, _) = STRING_ENUMS[*e];
        l.nontrivial += 1;
        l.bump("unlisted spelling");
        let bytes = encode(&V::B(s.as_bytes().to_vec()));
        let accepted = guard(|| match name {
            "Version" => cbor_smol::cbor_deserialize::<Version>(&bytes).is_ok(),
            "Extension" => cbor_smol::cbor_deserialize::<Extension>(&bytes).is_ok(),
            "Transport" => cbor_smol::cbor_deserialize::<Transport>(&bytes).is_ok(),
            _ => cbor_smol::cbor_deserialize::<AttestationStatementFormat>(&bytes).is_ok(),
        });
        let v = match accepted {
            Ok(false) => Verdict::pass(),
            Ok(true) => Verdict::fail(format!("{}|{}|accepts-byte-string", P, name), "rejected (a byte string is not the text identifier)", format!("h'{}' accepted", hex(s.as_bytes()))),
            Err(p) => Verdict::fail(format!("{}|{}|panic", P, name), "no panic", p),
        };
        if !v.ok {
            l.fail(ctx, idx, v, || json!({"kind": "spelling-bytes", "enum": name, "spelling": s}));
        }
    });
    // numbers through CBOR
    let probes = num_probes();
    let total = (NUM_ENUMS.len() * probes.len()) as u64;
    let pr = &probes;
    sweep(ctx, "numeric identifiers through the CBOR decoder", total, "every integer 0..=300, every head threshold up to 2^64-1, negatives, values congruent to listed ones modulo 2^8 / 2^16 / 2^32", move |idx, l| {
        let (name, table) = NUM_ENUMS[(idx as usize) / pr.len()];
        let v = &pr[(idx as usize) % pr.len()];
        let listed = matches!(v, V::U(n) if table.contains(n));
        if !listed {
            l.nontrivial += 1;
        }
        l.bump(if listed { "listed number" } else { "unlisted number" });
        let r = check_num(name, table, v);
        if !r.ok {
            l.fail(ctx, idx, r, || json!({"kind": "number", "enum": name, "value": hex(&encode(v))}));
        }
    });
    sweep(ctx, "byte-valued tables", 256, "CredentialProtectionPolicy::try_from, ControlByte::try_from, Permissions::from_bits over all 256 bytes", move |idx, l| {
        l.nontrivial += 1;
        let v = check_byte_tables(idx as u8);
        l.bump("byte");
        if !v.ok {
            l.fail(ctx, idx, v, || json!({"kind": "byte", "byte": idx}));
        }
    });
    // the U2F control byte as the APDU parser takes it from P1: all 256 values, every encoding
    {
        let mut data = vec![0x11u8; 32];
        data.extend(vec![0x22u8; 32]);
        data.push(16);
        data.extend(vec![0x33u8; 16]);
        let dr = &data;
        sweep(ctx, "control byte through the APDU parser", 256 * 6, "class 0, instruction 2, every P1, a valid authenticate body in each of 6 length encodings: accepted iff P1 in {3, 7, 8} and delivered as that control byte", move |idx, l| {
            let p1 = (idx / 6) as u8;
            let enc = (idx % 6) as u8;
            let Some(body) = super::c08::body(dr, enc) else { return };
            let mut bytes = vec![0x00, 0x02, p1, 0x00];
            bytes.extend_from_slice(&body);
            l.nontrivial += 1;
            l.bump(if matches!(p1, 3 | 7 | 8) { "listed number" } else { "unlisted number" });
            let mut v = super::c08::check_view(0, 2, p1, dr, &bytes);
            if !v.ok {
                v.signature = format!("{}|ControlByte|through-apdu-parser", P);
                l.fail(ctx, idx, v, || json!({"kind": "control-apdu", "apdu": hex(&bytes), "p1": p1}));
            }
        });
    }
    // every list of identifiers up to the member's capacity inside a GetInfo response: each
    // identifier keeps its spelling next to every other one (decode + re-encode = identity)
    {
        let mut members: Vec<(u64, &'static [&'static str], usize)> = vec![(1, &VERSIONS, 4), (2, &EXTENSIONS, 4), (9, &TRANSPORTS, 4)];
        if cfg!(feature = "g") {
            members.push((22, &FORMATS, 2));
        }
        let mut lists: Vec<(u64, Vec<&'static str>)> = Vec::new();
        for (key, table, cap) in &members {
            let n = table.len();
            for len in 0..=*cap {
                for mut r in 0..n.pow(len as u32) {
                    let mut v = Vec::new();
                    for _ in 0..len {
                        v.push(table[r % n]);
                        r /= n;
                    }
                    lists.push((*key, v));
                }
            }
        }
        let lr = &lists;
        sweep(ctx, "identifier lists inside a GetInfo response", lists.len() as u64, "every list of length <= capacity over the table's spellings as versions / extensions / transports / attestationFormats, decoded and re-encoded through get_info::Response", move |idx, l| {
            let (key, list) = &lr[idx as usize];
            let mut m = vec![(V::U(1), V::A(vec![V::t("FIDO_2_0")])), (V::U(3), V::B(vec![7; 16]))];
            let lv = V::A(list.iter().map(|s| V::t(s)).collect());
            if *key == 1 {
                m[0].1 = lv;
            } else {
                m.push((V::U(*key), lv));
            }
            m.sort_by_key(|e| e.0.as_u64());
            let bytes = encode(&V::M(m));
            l.nontrivial += 1;
            l.bump("identifier list");
            match super::c15::roundtrip("getInfo.Response", &bytes) {
                super::c15::RT::Done { bytes: b, same_value: true } if b == bytes => {}
                other => {
                    let v = Verdict::fail(format!("{}|identifier-list|member-{}", P, key), hex(&bytes), format!("{:?}", other));
                    l.fail(ctx, idx, v, || json!({"kind": "identifier-list", "bytes": hex(&bytes), "key": key}));
                }
            }
        });
    }
    // sub-command numbers as the request decoder takes them, under both credential-management
    // command bytes and for ClientPin
    sweep(ctx, "sub-command numbers through the request decoder", 3 * 256, "commands 0x0A, 0x41 and 0x06 x every sub-command number 0..=255 in an otherwise minimal request: accepted iff listed", move |idx, l| {
        let cmd = [0x0au8, 0x41, 0x06][(idx / 256) as usize];
        let n = idx % 256;
        let (wire, table): (V, &[u64]) = if cmd == 0x06 {
            (V::M(vec![(V::U(1), V::U(1)), (V::U(2), V::U(n))]), &PIN_SUBCOMMANDS)
        } else {
            (V::M(vec![(V::U(1), V::U(n))]), &CM_SUBCOMMANDS)
        };
        let listed = table.contains(&n);
        l.nontrivial += 1;
        l.bump(if listed { "listed number" } else { "unlisted number" });
        let got = decode_request(&message(cmd, &wire));
        let ok = match &got {
            Dec::Ok(v) => listed && v.get_t("params").and_then(|p| p.get_t("subCommand")).and_then(|s| s.as_u64()) == Some(n),
            Dec::Err(_) => !listed,
            Dec::Panic(_) => false,
        };
        if !ok {
            let v = Verdict::fail(format!("{}|sub-command-through-decoder|0x{:02x}", P, cmd), if listed { format!("accepted as sub-command {}", n) } else { "rejected".into() }, got.show());
            l.fail(ctx, idx, v, || json!({"kind": "subcommand-request", "cmd": cmd, "n": n}));
        }
    });
    // a lookup right after a successful one (anything remembered from the last hit must not make a
    // foreign string pass): after each valid identifier, every string of length 1..=5 (thorough 6)
    // over a-z and '-'
    {
        const ALPHA: &[u8; 27] = b"abcdefghijklmnopqrstuvwxyz-";
        let maxlen: u32 = if ctx.thorough() { 6 } else { 5 };
        let per: u64 = (1..=maxlen).map(|k| 27u64.pow(k)).sum();
        let mut phases: Vec<(&'static str, &'static [&'static str], &'static str)> = Vec::new();
        for (name, table) in STRING_ENUMS {
            for w in table.iter() {
                phases.push((name, table, w));
            }
        }
        for (name, table, valid) in phases {
            sweep(ctx, &format!("{}: every short lower-case string after a lookup of {:?}", name, valid), per, "TryFrom of the valid identifier, then TryFrom of the string: rejected unless listed", move |idx, l| {
                let mut r = idx;
                let mut len = 1u32;
                while r >= 27u64.pow(len) {
                    r -= 27u64.pow(len);
                    len += 1;
                }
                let mut buf = [0u8; 8];
                for k in (0..len as usize).rev() {
                    buf[k] = ALPHA[(r % 27) as usize];
                    r /= 27;
                }
                let s = std::str::from_utf8(&buf[..len as usize]).unwrap();
                let listed = table.contains(&s);
                if !listed {
                    l.nontrivial += 1;
                }
                let accepted = match name {
                    "Version" => Version::try_from(valid).is_ok() && Version::try_from(s).is_ok(),
                    "Extension" => Extension::try_from(valid).is_ok() && Extension::try_from(s).is_ok(),
                    "Transport" => Transport::try_from(valid).is_ok() && Transport::try_from(s).is_ok(),
                    _ => AttestationStatementFormat::try_from(valid).is_ok() && AttestationStatementFormat::try_from(s).is_ok(),
                };
                if accepted != listed {
                    let v = Verdict::fail(format!("{}|{}|{}", P, name, if listed { "listed-spelling-wrong" } else { "accepts-unlisted-spelling" }), if listed { "accepted" } else { "rejected" }, format!("{:?} {} right after a lookup of {:?}", s, if accepted { "accepted" } else { "rejected" }, valid));
                    let s = s.to_string();
                    l.fail(ctx, idx, v, || json!({"kind": "spelling", "enum": name, "spelling": s, "after": valid, "note": "depends on the previous lookup"}));
                }
            });
        }
    }
    // the tables keep no memory: every ordered pair of (enumeration, spelling) lookups
    {
        let mut items: Vec<(String, Box<dyn Fn() -> String + Sync>)> = Vec::new();
        for (name, table) in STRING_ENUMS {
            let mut words: Vec<String> = table.iter().map(|w| w.to_string()).collect();
            words.push(String::new());
            words.push(table[0].to_uppercase());
            words.push(format!("{}x", table[0]));
            for w in words {
                items.push((format!("{}({:?})", name, w), Box::new(move || format!("{:?}", present(name, &w)))));
            }
        }
        for (name, table) in NUM_ENUMS {
            for x in table.iter().copied().chain([0u64, 8, 255]) {
                items.push((format!("{}({})", name, x), Box::new(move || format!("{:?}", present_num(name, &V::U(x))))));
            }
        }
        pair_histories(ctx, P, "lookup call pairs", "every ordered pair of lookups (valid and invalid spellings / numbers of every enumeration) back to back: the second result must not depend on the first", &items);
    }
    sweep(ctx, "named constants", 1, "55 status codes, 6 permission bits, 21 numeric variants, 12 spellings against the specification tables; distinctness", move |idx, l| {
        l.nontrivial += 1;
        for v in check_named() {
            l.fail(ctx, idx, v, || json!({"kind": "named"}));
        }
    });
    ctx.require_outcomes(&["listed spelling", "unlisted spelling", "listed number", "unlisted number"]);
    ctx.sample(json!({"enum": "Transport", "spelling": "NFC", "oracle": "rejected (case variant)"}));
    ctx.sample(json!({"enum": "PinV1Subcommand", "value": 8, "oracle": "rejected (gap in the table)"}));
    ctx.sample(json!({"enum": "Version", "spelling": "FIDO_2_1_PR", "oracle": "rejected (prefix of a valid name, extension of another)"}));
}

pub fn replay(case: &Value) -> Verdict {
    match case["kind"].as_str() {
        Some("spelling") => {
            let (name, table) = *STRING_ENUMS.iter().find(|e| e.0 == case["enum"].as_str().unwrap()).unwrap();
            check_string(name, table, case["spelling"].as_str().unwrap())
        }
        Some("subcommand-request") => {
            let cmd = case["cmd"].as_u64().unwrap() as u8;
            let n = case["n"].as_u64().unwrap();
            let (wire, table): (V, &[u64]) = if cmd == 0x06 { (V::M(vec![(V::U(1), V::U(1)), (V::U(2), V::U(n))]), &PIN_SUBCOMMANDS) } else { (V::M(vec![(V::U(1), V::U(n))]), &CM_SUBCOMMANDS) };
            let listed = table.contains(&n);
            let got = decode_request(&message(cmd, &wire));
            let ok = match &got {
                Dec::Ok(v) => listed && v.get_t("params").and_then(|p| p.get_t("subCommand")).and_then(|s| s.as_u64()) == Some(n),
                Dec::Err(_) => !listed,
                Dec::Panic(_) => false,
            };
            if ok { Verdict::pass() } else { Verdict::fail(format!("{}|sub-command-through-decoder|0x{:02x}", P, cmd), if listed { "accepted" } else { "rejected" }, got.show()) }
        }
        Some("control-apdu") => {
            let bytes = crate::refcbor::unhex(case["apdu"].as_str().unwrap());
            let p1 = case["p1"].as_u64().unwrap() as u8;
            let mut data = vec![0x11u8; 32];
            data.extend(vec![0x22u8; 32]);
            data.push(16);
            data.extend(vec![0x33u8; 16]);
            let mut v = super::c08::check_view(0, 2, p1, &data, &bytes);
            if !v.ok {
                v.signature = format!("{}|ControlByte|through-apdu-parser", P);
            }
            v
        }
        Some("identifier-list") => {
            let bytes = crate::refcbor::unhex(case["bytes"].as_str().unwrap());
            match super::c15::roundtrip("getInfo.Response", &bytes) {
                super::c15::RT::Done { bytes: b, same_value: true } if b == bytes => Verdict::pass(),
                other => Verdict::fail(format!("{}|identifier-list|member-{}", P, case["key"]), hex(&bytes), format!("{:?}", other)),
            }
        }
        Some("spelling-bytes") => {
            let name = case["enum"].as_str().unwrap();
            let bytes = encode(&V::B(case["spelling"].as_str().unwrap().as_bytes().to_vec()));
            let accepted = match name {
                "Version" => cbor_smol::cbor_deserialize::<Version>(&bytes).is_ok(),
                "Extension" => cbor_smol::cbor_deserialize::<Extension>(&bytes).is_ok(),
                "Transport" => cbor_smol::cbor_deserialize::<Transport>(&bytes).is_ok(),
                _ => cbor_smol::cbor_deserialize::<AttestationStatementFormat>(&bytes).is_ok(),
            };
            if accepted {
                Verdict::fail(format!("{}|{}|accepts-byte-string", P, name), "rejected", "accepted")
            } else {
                Verdict::pass()
            }
        }
        Some("number") => {
            let (name, table) = *NUM_ENUMS.iter().find(|e| e.0 == case["enum"].as_str().unwrap()).unwrap();
            let v = crate::refcbor::parse(&crate::refcbor::unhex(case["value"].as_str().unwrap())).unwrap().value;
            check_num(name, table, &v)
        }
        Some("byte") => check_byte_tables(case["byte"].as_u64().unwrap() as u8),
        Some("named") => check_named().into_iter().next().unwrap_or_else(Verdict::pass),
        _ => machinery_panic("C18: unknown replay kind"),
    }
}
