//! C19 — generated fuzzing inputs are always memory-safe, valid request values (cfg-all only).

use crate::bind;
use crate::core::*;
use crate::refcbor::{hex, unhex, V};
use crate::subject::*;
use arbitrary::{Arbitrary, Unstructured};
use ctap_types::{authenticator, ctap1, ctap2};
use serde_json::{json, Value};

const P: &str = "C19";

thread_local! {
    static DBG: std::cell::RefCell<String> = std::cell::RefCell::new(String::with_capacity(1 << 20));
}

fn all_text_valid(v: &V) -> bool {
    match v {
        V::T(t) => std::str::from_utf8(t).is_ok(),
        V::A(a) => a.iter().all(all_text_valid),
        V::M(m) => m.iter().all(|(k, x)| all_text_valid(k) && all_text_valid(x)),
        _ => true,
    }
}

/// reference limits of the bounded members of a generated CTAP2 request (by view path)
fn within_limits(view: &V) -> Result<(), String> {
    fn len_of(v: &V) -> usize {
        match v {
            V::T(t) | V::B(t) => t.len(),
            V::A(a) => a.len(),
            _ => 0,
        }
    }
    fn walk(v: &V, path: &str, out: &mut Vec<(String, usize)>) {
        match v {
            V::M(m) => {
                for (k, x) in m {
                    let p = format!("{}/{}", path, k.as_str().unwrap_or("?"));
                    out.push((p.clone(), len_of(x)));
                    walk(x, &p, out);
                }
            }
            V::A(a) => {
                for x in a {
                    walk(x, &format!("{}[]", path), out);
                }
            }
            _ => {}
        }
    }
    let mut items = Vec::new();
    walk(view, "", &mut items);
    let limits: [(&str, usize); 14] = [
        ("/rp/id", 256),
        ("/rp/name", 64),
        ("/user/id", 64),
        ("/user/icon", 128),
        ("/user/name", 64),
        ("/user/displayName", 64),
        ("/pubKeyCredParams", 2),
        ("/excludeList", 16),
        ("/allowList", 10),
        ("/saltEnc", 80),
        ("/saltAuth", 32),
        ("/keyAgreement/x", 32),
        ("/keyAgreement/y", 32),
        ("/known", 2),
    ];
    for (p, n) in items {
        for (suffix, max) in limits {
            if p.ends_with(suffix) && n > max {
                return Err(format!("{} has length {} > {}", p, n, max));
            }
        }
        if p.ends_with("/rpIDHash") && n != 32 {
            return Err(format!("{} has length {}", p, n));
        }
    }
    Ok(())
}

/// every borrowed slice / string of the generated value must lie inside the input buffer
/// (the generators hand out references into it; one that reaches past its end is a memory-safety
/// fault even if nothing panics)
struct Range {
    lo: usize,
    hi: usize,
}
impl Range {
    fn of(input: &[u8]) -> Range {
        Range { lo: input.as_ptr() as usize, hi: input.as_ptr() as usize + input.len() }
    }
    fn holds(&self, what: &str, p: &[u8]) -> Result<(), (String, String)> {
        let a = p.as_ptr() as usize;
        if p.is_empty() || (a >= self.lo && a + p.len() <= self.hi) {
            Ok(())
        } else {
            Err(("borrowed-data-outside-input".into(), format!("{}: {} bytes at offset {} of a {}-byte input", what, p.len(), a as isize - self.lo as isize, self.hi - self.lo)))
        }
    }
}

/// members as the subject declares them: borrowed ones must point into the input, owned copies
/// have nothing to check (so a member that changes between the two still compiles and is judged)
trait Held {
    fn held(&self, what: &str, rg: &Range) -> Result<(), (String, String)>;
}
impl Held for &[u8] {
    fn held(&self, what: &str, rg: &Range) -> Result<(), (String, String)> {
        rg.holds(what, self)
    }
}
impl Held for &str {
    fn held(&self, what: &str, rg: &Range) -> Result<(), (String, String)> {
        rg.holds(what, self.as_bytes())
    }
}
impl Held for &serde_bytes::Bytes {
    fn held(&self, what: &str, rg: &Range) -> Result<(), (String, String)> {
        rg.holds(what, self)
    }
}
impl<const N: usize> Held for &[u8; N] {
    fn held(&self, what: &str, rg: &Range) -> Result<(), (String, String)> {
        rg.holds(what, &self[..])
    }
}
impl<const N: usize> Held for &serde_bytes::ByteArray<N> {
    fn held(&self, what: &str, rg: &Range) -> Result<(), (String, String)> {
        rg.holds(what, &self[..])
    }
}
impl<const N: usize> Held for ctap_types::Bytes<N> {
    fn held(&self, _: &str, _: &Range) -> Result<(), (String, String)> {
        Ok(())
    }
}
impl<const N: usize> Held for ctap_types::String<N> {
    fn held(&self, _: &str, _: &Range) -> Result<(), (String, String)> {
        Ok(())
    }
}
impl<const N: usize> Held for serde_bytes::ByteArray<N> {
    fn held(&self, _: &str, _: &Range) -> Result<(), (String, String)> {
        Ok(())
    }
}
impl Held for ctap_types::webauthn::PublicKeyCredentialDescriptorRef<'_> {
    fn held(&self, what: &str, rg: &Range) -> Result<(), (String, String)> {
        self.id.held(what, rg)?;
        self.key_type.held(what, rg)
    }
}
impl Held for ctap_types::webauthn::PublicKeyCredentialDescriptor {
    fn held(&self, what: &str, rg: &Range) -> Result<(), (String, String)> {
        self.id.held(what, rg)?;
        self.key_type.held(what, rg)
    }
}
impl<T: Held> Held for Option<T> {
    fn held(&self, what: &str, rg: &Range) -> Result<(), (String, String)> {
        match self {
            Some(x) => x.held(what, rg),
            None => Ok(()),
        }
    }
}

fn borrowed_ctap2(r: &ctap2::Request<'_>, rg: &Range) -> Result<(), (String, String)> {
    match r {
        ctap2::Request::MakeCredential(x) => {
            x.client_data_hash.held("clientDataHash", rg)?;
            for d in x.exclude_list.iter().flatten() {
                d.held("excludeList", rg)?;
            }
            x.pin_auth.held("pinUvAuthParam", rg)?;
        }
        ctap2::Request::GetAssertion(x) => {
            x.rp_id.held("rpId", rg)?;
            x.client_data_hash.held("clientDataHash", rg)?;
            for d in x.allow_list.iter().flatten() {
                d.held("allowList", rg)?;
            }
            x.pin_auth.held("pinUvAuthParam", rg)?;
        }
        ctap2::Request::ClientPin(x) => {
            x.pin_auth.held("pinUvAuthParam", rg)?;
            x.new_pin_enc.held("newPinEnc", rg)?;
            x.pin_hash_enc.held("pinHashEnc", rg)?;
            x.rp_id.held("rpId", rg)?;
        }
        ctap2::Request::CredentialManagement(x) => {
            if let Some(p) = &x.sub_command_params {
                p.rp_id_hash.held("rpIDHash", rg)?;
                if let Some(d) = &p.credential_id {
                    d.held("credentialID", rg)?;
                }
            }
            x.pin_auth.held("pinUvAuthParam", rg)?;
        }
        ctap2::Request::LargeBlobs(x) => {
            x.set.held("set", rg)?;
            x.pin_uv_auth_param.held("pinUvAuthParam", rg)?;
        }
        _ => {}
    }
    Ok(())
}

fn borrowed_ctap1(r: &ctap1::Request<'_>, rg: &Range) -> Result<(), (String, String)> {
    match r {
        ctap1::Request::Register(x) => {
            x.challenge.held("challenge", rg)?;
            x.app_id.held("application", rg)
        }
        ctap1::Request::Authenticate(x) => {
            x.challenge.held("challenge", rg)?;
            x.app_id.held("application", rg)?;
            x.key_handle.held("keyHandle", rg)
        }
        ctap1::Request::Version => Ok(()),
    }
}

fn check_ctap2(r: &ctap2::Request<'_>, rg: &Range) -> Result<(), (String, String)> {
    borrowed_ctap2(r, rg)?;
    let view = bind::observe_request(r);
    if !all_text_valid(&view) {
        return Err(("ill-formed-utf8-in-text-field".into(), format!("{:?}", view)));
    }
    within_limits(&view).map_err(|e| ("member-beyond-capacity".to_string(), e))?;
    DBG.with(|d| {
        use std::fmt::Write;
        let mut d = d.borrow_mut();
        d.clear();
        let _ = write!(d, "{:?}", r);
    });
    let c = r.clone();
    if c != *r {
        return Err(("clone-differs".into(), String::new()));
    }
    // dispatch through the recording mock: exactly one handler, no fault
    let mut mock = super::c10::Mock { log: vec![], fail: None };
    let res = ctap2::Authenticator::call_ctap2(&mut mock, r);
    if mock.log.len() != 1 || res.is_err() {
        return Err(("dispatch".into(), format!("{} calls, {:?}", mock.log.len(), res.err())));
    }
    Ok(())
}

fn check_ctap1(r: &ctap1::Request<'_>, rg: &Range) -> Result<(), (String, String)> {
    borrowed_ctap1(r, rg)?;
    DBG.with(|d| {
        use std::fmt::Write;
        let mut d = d.borrow_mut();
        d.clear();
        let _ = write!(d, "{:?}", r);
    });
    if r.clone() != *r {
        return Err(("clone-differs".into(), String::new()));
    }
    let mut mock = super::c10::Mock { log: vec![], fail: None };
    let res = ctap1::Authenticator::call_ctap1(&mut mock, r);
    let want_calls = if matches!(r, ctap1::Request::Version) { 0 } else { 1 };
    if mock.log.len() != want_calls || res.is_err() {
        return Err(("dispatch".into(), format!("{} calls, {:?}", mock.log.len(), res.err())));
    }
    Ok(())
}

/// generator 0 = CTAP1, 1 = CTAP2, 2 = combined
pub fn check(gen: u8, input: &[u8]) -> (Verdict, &'static str) {
    breadcrumb(TAG_ARBITRARY, input);
    let rg = Range::of(input);
    let r = guard(|| {
        let mut u = Unstructured::new(input);
        match gen {
            0 => match ctap1::Request::arbitrary(&mut u) {
                Err(arbitrary::Error::NotEnoughData) => Ok("ran out of bytes"),
                Err(e) => Err(("error-other-than-out-of-bytes".to_string(), format!("{:?}", e))),
                Ok(r) => check_ctap1(&r, &rg).map(|_| "ctap1 request"),
            },
            1 => match ctap2::Request::arbitrary(&mut u) {
                Err(arbitrary::Error::NotEnoughData) => Ok("ran out of bytes"),
                Err(e) => Err(("error-other-than-out-of-bytes".to_string(), format!("{:?}", e))),
                Ok(r) => check_ctap2(&r, &rg).map(|_| "ctap2 request"),
            },
            _ => match authenticator::Request::arbitrary(&mut u) {
                Err(arbitrary::Error::NotEnoughData) => Ok("ran out of bytes"),
                Err(e) => Err(("error-other-than-out-of-bytes".to_string(), format!("{:?}", e))),
                Ok(authenticator::Request::Ctap1(r)) => check_ctap1(&r, &rg).map(|_| "ctap1 request"),
                Ok(authenticator::Request::Ctap2(r)) => check_ctap2(&r, &rg).map(|_| "ctap2 request"),
            },
        }
    });
    let g = ["ctap1", "ctap2", "combined"][gen as usize];
    match r {
        Ok(Ok(class)) => (Verdict::pass(), class),
        Ok(Err((what, detail))) => (Verdict::fail(format!("{}|{}|{}", P, g, what), "an internally valid request", detail), "invalid"),
        Err(p) => (Verdict::fail(format!("{}|{}|panic|{}", P, g, p.rsplit(" @ ").next().unwrap_or("")), "Err(NotEnoughData) or a valid request", format!("PANIC {}", p)), "panic"),
    }
}

fn case(gen: u8, input: &[u8], family: &str) -> Value {
    json!({"kind": "arbitrary", "generator": gen, "input": hex(input), "family": family})
}

pub fn run(ctx: &'static Ctx) {
    ctx.rule("state = (generator, input byte string from an exhaustive family); the generated value must be Err(out of data) or a request whose text fields are valid UTF-8 and within capacity, whose borrowed data lies inside the input, and that can be formatted, cloned, compared and dispatched; non-trivial = a request was generated");
    ctx.assume("the quantifier's seeded random strings are replaced by exhaustive families with the same bias: all periodic inputs, bounded byte deviations from three bases, all short words after each variant-selecting prefix, UTF-8 pattern words repeated across every capacity");
    // G1: every single-byte-repeated input b^n; thorough: every n in 0..=4096; quick: every n up to
    // 1024 and every 16th length beyond (plus 4096)
    let lens: Vec<usize> = if ctx.thorough() {
        (0..=4096).collect()
    } else {
        let mut v: Vec<usize> = (0..=1024).collect();
        v.extend((1025..4096).step_by(16));
        v.push(4095);
        v.push(4096);
        v
    };
    let nl = lens.len() as u64;
    let lr = &lens;
    sweep(ctx, "G1: b^n for every byte b and every enumerated length n <= 4096", 3 * 256 * nl, "three generators x 256 byte values x lengths (thorough: all 4097; quick: 0..=1024 and every 16th up to 4096)", move |idx, l| {
        let gen = (idx / (256 * nl)) as u8;
        let r = idx % (256 * nl);
        let b = (r / nl) as u8;
        let n = lr[(r % nl) as usize];
        thread_local! { static BUF: std::cell::RefCell<Vec<u8>> = std::cell::RefCell::new(Vec::with_capacity(4200)); }
        BUF.with(|buf| {
            let mut buf = buf.borrow_mut();
            buf.clear();
            buf.resize(n, b);
            let (v, class) = check(gen, &buf);
            l.bump(class);
            if class != "ran out of bytes" {
                l.nontrivial += 1;
            }
            if !v.ok {
                let input = buf.clone();
                l.fail(ctx, idx, v, || case(gen, &input, "G1"));
            }
        });
    });
    // G2: <= 2 byte deviations over a 16-value alphabet from three bases
    let alpha: [u8; 16] = [0x00, 0x01, 0x02, 0x7f, 0x80, 0xbf, 0xc2, 0xc3, 0xe0, 0xe2, 0xed, 0xf0, 0xf4, 0xf5, 0xfe, 0xff];
    let bases = [0x00u8, 0xff, 0x80];
    let mut g2: Vec<(u8, usize, Vec<usize>)> = Vec::new(); // (base, len, positions to vary)
    for base in bases {
        let (full, edge): (&[usize], usize) = if ctx.thorough() { (&[8, 16, 32, 64, 128], 64) } else { (&[8, 16, 32], 16) };
        for len in full {
            g2.push((base, *len, (0..*len).collect()));
        }
        let partial: &[usize] = if ctx.thorough() { &[512, 4096] } else { &[64, 128, 512, 4096] };
        for len in partial {
            let mut pos: Vec<usize> = (0..edge).collect();
            pos.extend(len - edge..*len);
            g2.push((base, *len, pos));
        }
    }
    let mut offs = Vec::new();
    let mut total = 0u64;
    for (_, _, pos) in &g2 {
        offs.push(total);
        let k = pos.len() as u64;
        total += 3 * (1 + k * 16 + k * (k - 1) / 2 * 256);
    }
    let (g2r, offr) = (&g2, &offs);
    sweep(ctx, "G2: up to two byte deviations from all-00 / all-FF / all-80", total, "lengths 8..128 (all position pairs) and 512, 4096 (first and last 64 positions; lengths are drawn from the tail) x 16-value alphabet x three generators", move |idx, l| {
        let fi = match offr.binary_search(&idx) {
            Ok(i) => i,
            Err(i) => i - 1,
        };
        let (base, len, pos) = &g2r[fi];
        let k = pos.len() as u64;
        let per_gen = 1 + k * 16 + k * (k - 1) / 2 * 256;
        let r = idx - offr[fi];
        let gen = (r / per_gen) as u8;
        let mut r = r % per_gen;
        let mut input = vec![*base; *len];
        if r == 0 {
        } else if r <= k * 16 {
            r -= 1;
            input[pos[(r / 16) as usize]] = alpha[(r % 16) as usize];
        } else {
            r -= 1 + k * 16;
            let pair = r / 256;
            let (a, b) = (alpha[((r % 256) / 16) as usize], alpha[(r % 16) as usize]);
            let mut i = 0u64;
            let mut rem = pair;
            while rem >= k - 1 - i {
                rem -= k - 1 - i;
                i += 1;
            }
            let j = i + 1 + rem;
            input[pos[i as usize]] = a;
            input[pos[j as usize]] = b;
        }
        let (v, class) = check(gen, &input);
        l.bump(class);
        if class != "ran out of bytes" {
            l.nontrivial += 1;
        }
        if !v.ok {
            l.fail(ctx, idx, v, || case(gen, &input, "G2"));
        }
    });
    // variant-selecting prefixes: derive(Arbitrary) picks variant (u32_le * N) >> 32
    let sel = |k: u64, n: u64| -> [u8; 4] { ((((k << 32) + (1 << 31)) / n) as u32).to_le_bytes() };
    let mut prefixes: Vec<(u8, Vec<u8>)> = Vec::new();
    for k in 0..3 {
        prefixes.push((0, sel(k, 3).to_vec()));
    }
    for k in 0..10 {
        prefixes.push((1, sel(k, 10).to_vec()));
    }
    for k in 0..3 {
        let mut p = sel(0, 2).to_vec();
        p.extend(sel(k, 3));
        prefixes.push((2, p));
    }
    for k in 0..10 {
        let mut p = sel(1, 2).to_vec();
        p.extend(sel(k, 10));
        prefixes.push((2, p));
    }
    // G3: every word over an 8-value alphabet after each variant prefix, at the head or the tail
    let a8: [u8; 8] = [0x00, 0x01, 0x40, 0x41, 0x80, 0xc3, 0xf0, 0xff];
    let wmax: u32 = if ctx.thorough() { 6 } else { 5 };
    let words: u64 = (0..=wmax).map(|k| 8u64.pow(k)).sum();
    let pr = &prefixes;
    sweep(ctx, "G3: every short word over 8 byte values after each variant-selecting prefix", prefixes.len() as u64 * words * 2, "26 prefixes (every variant of every generator) x every word up to the length bound over {00,01,40,41,80,C3,F0,FF} x {word right after the prefix followed by a 300-byte tail, word at the very end (length selectors are drawn from the tail)}", move |idx, l| {
        let mut r = idx;
        let at_tail = r % 2 == 1;
        r /= 2;
        let (gen, p) = &pr[(r / words) as usize];
        let mut w = r % words;
        let mut len = 0u32;
        while w >= 8u64.pow(len) {
            w -= 8u64.pow(len);
            len += 1;
        }
        let mut word = Vec::new();
        for k in (0..len).rev() {
            word.push(a8[((w / 8u64.pow(k)) % 8) as usize]);
        }
        let mut input = p.clone();
        if at_tail {
            input.extend(std::iter::repeat(b'a').take(300));
            input.extend(&word);
        } else {
            input.extend(&word);
            input.extend(std::iter::repeat(b'a').take(300));
        }
        let (v, class) = check(*gen, &input);
        l.bump(class);
        if class != "ran out of bytes" {
            l.nontrivial += 1;
        }
        if !v.ok {
            l.fail(ctx, idx, v, || case(*gen, &input, "G3"));
        }
    });
    // G5: all 65 536 two-byte words right after each variant prefix (every vendor code, every
    // sub-command byte, every length selector pair)
    sweep(ctx, "G5: every two-byte word after each variant-selecting prefix", prefixes.len() as u64 * 65536 * 2, "26 prefixes x 65 536 words x {followed by 64 zero bytes, followed by 300 bytes of 'a'}", move |idx, l| {
        let long = idx % 2 == 1;
        let r = idx / 2;
        let (gen, p) = &pr[(r / 65536) as usize];
        let w = (r % 65536) as u16;
        let mut input = p.clone();
        input.extend_from_slice(&w.to_be_bytes());
        if long {
            input.extend(std::iter::repeat(b'a').take(300));
        } else {
            input.extend(std::iter::repeat(0u8).take(64));
        }
        let (v, class) = check(*gen, &input);
        l.bump(class);
        if class != "ran out of bytes" {
            l.nontrivial += 1;
        }
        if !v.ok {
            l.fail(ctx, idx, v, || case(*gen, &input, "G5"));
        }
    });
    // G6: a small little-endian 32-bit word (selector-like values 0..=4) at every offset of a
    // uniform input after each variant prefix: integer members that select a mode or a length
    {
        let bases = [0x01u8, 0x81, 0xff];
        let lens = [96usize, 700];
        let words = [0u32, 1, 2, 3, 4];
        let per_prefix: u64 = (bases.len() * words.len()) as u64 * lens.iter().map(|n| *n as u64).sum::<u64>();
        sweep(ctx, "G6: one small 32-bit word at every offset of a uniform input after each variant prefix", prefixes.len() as u64 * per_prefix, "26 prefixes x bases {01, 81, FF} x lengths {96, 700} x every offset x little-endian words 0..=4", move |idx, l| {
            let (gen, p) = &pr[(idx / per_prefix) as usize];
            let mut r = idx % per_prefix;
            let w = words[(r % 5) as usize];
            r /= 5;
            let base = bases[(r % 3) as usize];
            r /= 3;
            let (len, off) = if r < lens[0] as u64 { (lens[0], r as usize) } else { (lens[1], (r - lens[0] as u64) as usize) };
            let mut input = p.clone();
            let start = input.len();
            input.resize(start + len, base);
            for (k, b) in w.to_le_bytes().iter().enumerate() {
                if off + k < len {
                    input[start + off + k] = *b;
                }
            }
            let (v, class) = check(*gen, &input);
            l.bump(class);
            if class != "ran out of bytes" {
                l.nontrivial += 1;
            }
            if !v.ok {
                l.fail(ctx, idx, v, || case(*gen, &input, "G6"));
            }
        });
    }
    // G7: presence tags and selectors: up to four bytes of an all-zero input set to 01 / 02 within
    // the first 32 positions after each variant prefix (40 for the two requests with nested
    // optional structures; thorough: 40 / 48 and three values); nested optional members are
    // reached through their tag bytes, small integers through their low byte
    {
        let vals: &[u8] = if ctx.thorough() { &[0x01, 0x02, 0x03] } else { &[0x01, 0x02] };
        let combos_for = |window: usize| -> Vec<Vec<(u8, u8)>> {
            let mut combos: Vec<Vec<(u8, u8)>> = vec![vec![]];
            let mut frontier: Vec<Vec<(u8, u8)>> = vec![vec![]];
            for _ in 0..4 {
                let mut next = Vec::new();
                for c in &frontier {
                    let start = c.last().map_or(0, |x| x.0 as usize + 1);
                    for pos in start..window {
                        for v in vals {
                            let mut d = c.clone();
                            d.push((pos as u8, *v));
                            next.push(d);
                        }
                    }
                }
                combos.extend(next.iter().cloned());
                frontier = next;
            }
            combos
        };
        let (w_small, w_big) = if ctx.thorough() { (40, 48) } else { (32, 40) };
        let small = combos_for(w_small);
        let big = combos_for(w_big);
        // MakeCredential and GetAssertion are variants 0 and 1 of the CTAP2 generator (prefix
        // indices 3, 4) and of the CTAP2 arm of the combined one (16, 17)
        let nested: [usize; 4] = [3, 4, 16, 17];
        let mut offs: Vec<u64> = Vec::new();
        let mut total = 0u64;
        for pi in 0..prefixes.len() {
            offs.push(total);
            total += if nested.contains(&pi) { big.len() } else { small.len() } as u64;
        }
        let (sr, br, or) = (&small, &big, &offs);
        sweep(ctx, "G7: up to four tag / selector bytes set in an all-zero input after each variant prefix", total, "26 prefixes x every set of <= 4 positions among the first 32 (MakeCredential / GetAssertion: 40; thorough: 40 / 48) x values {01, 02} (thorough: {01, 02, 03}) on 256 zero bytes", move |idx, l| {
            let pi = match or.binary_search(&idx) {
                Ok(i) => i,
                Err(i) => i - 1,
            };
            let (gen, p) = &pr[pi];
            let c = if nested.contains(&pi) { &br[(idx - or[pi]) as usize] } else { &sr[(idx - or[pi]) as usize] };
            thread_local! { static BUF: std::cell::RefCell<Vec<u8>> = std::cell::RefCell::new(Vec::with_capacity(300)); }
            BUF.with(|buf| {
                let mut input = buf.borrow_mut();
                input.clear();
                input.extend_from_slice(p);
                let start = input.len();
                input.resize(start + 256, 0);
                for (pos, v) in c {
                    input[start + *pos as usize] = *v;
                }
                let (v, class) = check(*gen, &input);
                l.bump(class);
                if class != "ran out of bytes" {
                    l.nontrivial += 1;
                }
                if !v.ok {
                    let input = input.clone();
                    l.fail(ctx, idx, v, || case(*gen, &input, "G7"));
                }
            });
        });
    }
    // G8: a stream of one character width after each variant prefix, shifted by 0..=7 ASCII bytes:
    // every text field is then clamped at its capacity with the cut at every position inside a
    // character of that width
    {
        let chars = ["\u{e9}", "\u{20ac}", "\u{1f600}", "\u{10ffff}"];
        let totals = [300usize, 700, 2000];
        let per = (chars.len() * 8 * totals.len() * 2) as u64;
        sweep(ctx, "G8: a shifted stream of one character width after each variant prefix", prefixes.len() as u64 * per, "26 prefixes x {é, €, 😀, U+10FFFF} repeated x shift 0..=7 x total length {300, 700, 2000} x tail {00, FF}", move |idx, l| {
            let (gen, p) = &pr[(idx / per) as usize];
            let mut r = idx % per;
            let tail = if r % 2 == 0 { 0x00u8 } else { 0xff };
            r /= 2;
            let total = totals[(r % 3) as usize];
            r /= 3;
            let shift = (r % 8) as usize;
            let ch = chars[(r / 8) as usize];
            let mut input = p.clone();
            input.extend(std::iter::repeat(b'a').take(shift));
            while input.len() < total {
                input.extend_from_slice(ch.as_bytes());
            }
            input.extend(std::iter::repeat(tail).take(16));
            let (v, class) = check(*gen, &input);
            l.bump(class);
            if class != "ran out of bytes" {
                l.nontrivial += 1;
            }
            if !v.ok {
                l.fail(ctx, idx, v, || case(*gen, &input, "G8"));
            }
        });
    }
    // G9: one multi-byte character at every position of an ASCII input (ASCII bytes serve both as
    // huge length words, clamped to the capacity, and as text): wherever a bounded text field
    // begins, some position puts the character across the field's end at every possible split
    {
        let chars = ["\u{e9}", "\u{20ac}", "\u{1f600}", "\u{10ffff}"];
        let bases = [b'A', b'B'];
        let span: u64 = if ctx.thorough() { 3600 } else { 1400 };
        let per = chars.len() as u64 * bases.len() as u64 * span;
        sweep(ctx, "G9: one multi-byte character at every position of an ASCII input after each variant prefix", prefixes.len() as u64 * per, "26 prefixes x base byte {41 (optional members present), 42 (absent)} x {é, €, 😀, U+10FFFF} at every offset below 1400 (thorough: 3600) of a 4096-byte input, 16 zero bytes at the end", move |idx, l| {
            let (gen, p) = &pr[(idx / per) as usize];
            let mut r = idx % per;
            let pos = (r % span) as usize;
            r /= span;
            let base = bases[(r % 2) as usize];
            let ch = chars[(r / 2) as usize].as_bytes();
            thread_local! { static BUF: std::cell::RefCell<Vec<u8>> = std::cell::RefCell::new(Vec::with_capacity(4200)); }
            BUF.with(|buf| {
                let mut input = buf.borrow_mut();
                input.clear();
                input.extend_from_slice(p);
                let start = input.len();
                input.resize(start + 4096, base);
                input[start + pos..start + pos + ch.len()].copy_from_slice(ch);
                input.extend_from_slice(&[0u8; 16]);
                let (v, class) = check(*gen, &input);
                l.bump(class);
                if class != "ran out of bytes" {
                    l.nontrivial += 1;
                }
                if !v.ok {
                    let input = input.clone();
                    l.fail(ctx, idx, v, || case(*gen, &input, "G9"));
                }
            });
        });
    }
    // G10: the same input generated forty times in a row on one thread (anything the generators
    // keep between calls): shifted multi-byte streams after every variant prefix
    {
        let chars = ["\u{e9}", "\u{20ac}", "\u{1f600}"];
        let per = (chars.len() * 4 * 2) as u64;
        sweep(ctx, "G10: forty consecutive generations from one input", prefixes.len() as u64 * per, "26 prefixes x {é, €, 😀} streams x shift 0..=3 x total length {700, 2000}: each input is generated from 40 times in a row; every generation is checked", move |idx, l| {
            let (gen, p) = &pr[(idx / per) as usize];
            let mut r = idx % per;
            let total = if r % 2 == 0 { 700 } else { 2000 };
            r /= 2;
            let shift = (r % 4) as usize;
            let ch = chars[(r / 4) as usize];
            let mut input = p.clone();
            input.extend(std::iter::repeat(b'a').take(shift));
            while input.len() < total {
                input.extend_from_slice(ch.as_bytes());
            }
            input.extend(std::iter::repeat(0u8).take(16));
            for _ in 0..40 {
                let (v, class) = check(*gen, &input);
                l.bump(class);
                if class != "ran out of bytes" {
                    l.nontrivial += 1;
                }
                if !v.ok {
                    l.fail(ctx, idx, v, || case(*gen, &input, "G10 (depends on earlier generations on the same thread)"));
                    break;
                }
            }
        });
    }
    // G11: a short explicit length word, then text that ends in a lead byte exactly at the end of
    // the window, followed by every short sequence of continuation-range bytes (also the ones
    // that are forbidden after that lead byte)
    {
        let leads = [0xc2u8, 0xdf, 0xe0, 0xed, 0xef, 0xf0, 0xf4];
        let conts = [0x80u8, 0x8f, 0x90, 0x9f, 0xa0, 0xbf];
        let ks = [1u64, 2, 5, 16, 64];
        let words: u64 = (1..=3u32).map(|k| 6u64.pow(k)).sum();
        let per = leads.len() as u64 * ks.len() as u64 * words * 2;
        sweep(ctx, "G11: a lead byte at the end of an explicit text window, followed by continuation-range bytes", prefixes.len() as u64 * per, "26 prefixes x window length {1, 2, 5, 16, 64} x lead {C2, DF, E0, ED, EF, F0, F4} x every sequence of 1..=3 bytes over {80, 8F, 90, 9F, A0, BF} x {followed by zeros (everything else absent), followed by 2500 ASCII bytes}", move |idx, l| {
            let (gen, p) = &pr[(idx / per) as usize];
            let mut r = idx % per;
            let zeros_after = r % 2 == 0;
            r /= 2;
            let mut w = r % words;
            r /= words;
            let k = ks[(r % ks.len() as u64) as usize];
            let lead = leads[(r / ks.len() as u64) as usize];
            let mut len = 1u32;
            while w >= 6u64.pow(len) {
                w -= 6u64.pow(len);
                len += 1;
            }
            let mut input = p.clone();
            input.extend_from_slice(&k.to_le_bytes());
            input.extend(std::iter::repeat(b'a').take(k as usize - 1));
            input.push(lead);
            for j in (0..len).rev() {
                input.push(conts[((w / 6u64.pow(j)) % 6) as usize]);
            }
            if zeros_after {
                // everything that follows is absent / empty
                input.extend(std::iter::repeat(0u8).take(300));
            } else {
                input.extend(std::iter::repeat(b'a').take(2500));
                input.extend(std::iter::repeat(0u8).take(16));
            }
            let (v, class) = check(*gen, &input);
            l.bump(class);
            if class != "ran out of bytes" {
                l.nontrivial += 1;
            }
            if !v.ok {
                l.fail(ctx, idx, v, || case(*gen, &input, "G11"));
            }
        });
    }
    // G4: UTF-8 pattern words repeated to lengths around every capacity
    let letters: [&[u8]; 8] = [b"a", "é".as_bytes(), "€".as_bytes(), "😀".as_bytes(), &[0x80], &[0xc3], &[0xe2, 0x82], &[0xf0, 0x9f, 0x98]];
    let g4words: u64 = (1..=4u32).map(|k| 8u64.pow(k)).sum();
    let lens = [16usize, 64, 65, 128, 129, 256, 257, 300, 4096];
    let tails: [u8; 4] = [0x00, 0x40, 0x81, 0xff];
    sweep(ctx, "G4: words of <= 4 UTF-8 letters repeated across every capacity", 3 * g4words * lens.len() as u64 * tails.len() as u64, "letters {a, é, €, 😀, 80, C3, E2 82, F0 9F 98} repeated to 16, 64, 65, 128, 129, 256, 257, 300, 4096 bytes, followed by 16 tail bytes of 4 values (length selectors) x three generators", move |idx, l| {
        let gen = (idx % 3) as u8;
        let mut r = idx / 3;
        let tail = tails[(r % 4) as usize];
        r /= 4;
        let len = lens[(r % lens.len() as u64) as usize];
        r /= lens.len() as u64;
        let mut k = 1u32;
        while r >= 8u64.pow(k) {
            r -= 8u64.pow(k);
            k += 1;
        }
        let mut word: Vec<u8> = Vec::new();
        for j in (0..k).rev() {
            word.extend_from_slice(letters[((r / 8u64.pow(j)) % 8) as usize]);
        }
        let mut input = Vec::with_capacity(len + 16);
        while input.len() < len {
            input.extend_from_slice(&word);
        }
        input.truncate(len);
        input.extend(std::iter::repeat(tail).take(16));
        let (v, class) = check(gen, &input);
        l.bump(class);
        if class != "ran out of bytes" {
            l.nontrivial += 1;
        }
        if !v.ok {
            l.fail(ctx, idx, v, || case(gen, &input, "G4"));
        }
    });
    ctx.require_outcomes(&["ran out of bytes", "ctap1 request", "ctap2 request"]);
    ctx.sample(case(1, &[0x80; 40], "G1"));
    ctx.sample(json!({"family": "G4", "word": "é 80", "repeated_to": 129, "tail": "ff x 16"}));
}

pub fn replay(case: &Value) -> Verdict {
    check(case["generator"].as_u64().unwrap() as u8, &unhex(case["input"].as_str().unwrap())).0
}
