use crate::core::{Ctx, Verdict};
use serde_json::Value;

pub mod c01;
pub mod c02;
pub mod c03;
pub mod c04;
pub mod c05;
pub mod c06;
pub mod c07;
pub mod c08;
pub mod c09;
pub mod c10;
pub mod c15;
pub mod c16;
pub mod c17;
pub mod c18;
#[cfg(feature = "arb")]
pub mod c19;
pub mod c11;
pub mod c12;
pub mod c13;
pub mod c14;

pub fn run(ctx: &'static Ctx) {
    match ctx.property.as_str() {
        "C01" => c01::run(ctx),
        "C02" => c02::run(ctx),
        "C03" => c03::run(ctx),
        "C04" => c04::run(ctx),
        "C05" => c05::run(ctx),
        "C06" => c06::run(ctx),
        "C07" => c07::run(ctx),
        "C15" => c15::run(ctx),
        "C16" => c16::run(ctx),
        "C17" => c17::run(ctx),
        "C18" => c18::run(ctx),
        #[cfg(feature = "arb")]
        "C19" => c19::run(ctx),
        "C08" => c08::run(ctx),
        "C09" => c09::run(ctx),
        "C10" => c10::run(ctx),
        "C11" => c11::run(ctx),
        "C12" => c12::run(ctx),
        "C13" => c13::run(ctx),
        "C14" => c14::run(ctx),
        p => crate::core::machinery_panic(&format!("no driver for {}", p)),
    }
}

pub fn replay(prop: &str, case: &Value) -> Verdict {
    if case["kind"].as_str() == Some("crash") {
        // non-unwinding failure recorded by the crash handler: hand the input to the same entry
        // point again, unguarded; if the process survives, the case no longer fails
        let input = crate::refcbor::unhex(case["input"].as_str().unwrap_or(""));
        match case["tag"].as_str() {
            Some("ctap2-decode") => {
                let r = ctap_types::ctap2::Request::deserialize(&input);
                return Verdict {
                    ok: true,
                    signature: String::new(),
                    expected: "the call returns".into(),
                    observed: format!("returned {}", if r.is_ok() { "Ok".to_string() } else { format!("{:?}", r.err()) }),
                };
            }
            _ => crate::core::machinery_panic("crash replay for this entry point is done by re-running the check"),
        }
    }
    match prop {
        "C01" => c01::replay(case),
        "C02" => c02::replay(case),
        "C03" => c03::replay(case),
        "C04" => c04::replay(case),
        "C05" => c05::replay(case),
        "C06" => c06::replay(case),
        "C07" => c07::replay(case),
        "C15" => c15::replay(case),
        "C17" => c17::replay(case),
        "C18" => c18::replay(case),
        #[cfg(feature = "arb")]
        "C19" => c19::replay(case),
        "C08" => c08::replay(case),
        "C09" => c09::replay(case),
        "C10" => c10::replay(case),
        "C11" => c11::replay(case),
        "C12" => c12::replay(case),
        "C13" => c13::replay(case),
        "C14" => c14::replay(case),
        p => crate::core::machinery_panic(&format!("no replay for {}", p)),
    }
}
