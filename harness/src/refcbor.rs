//! Independent CBOR layer: value tree, encoder (shortest heads, order as given) with a site map
//! for fault injection, parser that records every departure from CTAP2 canonical form.
//! Shares no code with cbor-smol.

use std::fmt;

#[derive(Clone, PartialEq, Eq, Hash, PartialOrd, Ord)]
pub enum V {
    /// major 0
    U(u64),
    /// major 1: value is -1 - n
    N(u64),
    B(Vec<u8>),
    /// text string as raw bytes (may be ill-formed on purpose)
    T(Vec<u8>),
    A(Vec<V>),
    M(Vec<(V, V)>),
    Tag(u64, Box<V>),
    Bool(bool),
    Null,
    Undef,
    /// other simple values (0..=19, 32..=255)
    Simple(u8),
    F16(u16),
    F32(u32),
    F64(u64),
}

impl fmt::Debug for V {
    fn fmt(&self, f: &mut fmt::Formatter<'_>) -> fmt::Result {
        match self {
            V::U(n) => write!(f, "{}", n),
            V::N(n) => write!(f, "-{}", (*n as u128) + 1),
            V::B(b) => {
                if b.len() > 24 {
                    write!(f, "h'{}..'({})", hex(&b[..8]), b.len())
                } else {
                    write!(f, "h'{}'", hex(b))
                }
            }
            V::T(t) => match std::str::from_utf8(t) {
                Ok(s) if s.len() > 40 => {
                    let mut cut = 16;
                    while !s.is_char_boundary(cut) {
                        cut -= 1;
                    }
                    write!(f, "{:?}..({})", &s[..cut], s.len())
                }
                Ok(s) => write!(f, "{:?}", s),
                Err(_) => write!(f, "t'{}'", hex(t)),
            },
            V::A(a) => {
                write!(f, "[")?;
                for (i, x) in a.iter().enumerate() {
                    if i > 0 {
                        write!(f, ", ")?;
                    }
                    write!(f, "{:?}", x)?;
                }
                write!(f, "]")
            }
            V::M(m) => {
                write!(f, "{{")?;
                for (i, (k, v)) in m.iter().enumerate() {
                    if i > 0 {
                        write!(f, ", ")?;
                    }
                    write!(f, "{:?}: {:?}", k, v)?;
                }
                write!(f, "}}")
            }
            V::Tag(t, v) => write!(f, "{}({:?})", t, v),
            V::Bool(b) => write!(f, "{}", b),
            V::Null => write!(f, "null"),
            V::Undef => write!(f, "undefined"),
            V::Simple(s) => write!(f, "simple({})", s),
            V::F16(x) => write!(f, "f16(0x{:04x})", x),
            V::F32(x) => write!(f, "f32(0x{:08x})", x),
            V::F64(x) => write!(f, "f64(0x{:016x})", x),
        }
    }
}

pub fn hex(b: &[u8]) -> String {
    let mut s = String::with_capacity(b.len() * 2);
    for x in b {
        s.push_str(&format!("{:02x}", x));
    }
    s
}

pub fn unhex(s: &str) -> Vec<u8> {
    let s = s.as_bytes();
    let mut out = Vec::with_capacity(s.len() / 2);
    let d = |c: u8| -> u8 {
        match c {
            b'0'..=b'9' => c - b'0',
            b'a'..=b'f' => c - b'a' + 10,
            b'A'..=b'F' => c - b'A' + 10,
            _ => panic!("bad hex"),
        }
    };
    let mut i = 0;
    while i + 1 < s.len() {
        out.push(d(s[i]) << 4 | d(s[i + 1]));
        i += 2;
    }
    out
}

impl V {
    pub fn t(s: &str) -> V {
        V::T(s.as_bytes().to_vec())
    }
    pub fn b(b: &[u8]) -> V {
        V::B(b.to_vec())
    }
    pub fn int(i: i64) -> V {
        if i >= 0 {
            V::U(i as u64)
        } else {
            V::N((-1 - i) as u64)
        }
    }
    pub fn as_i128(&self) -> Option<i128> {
        match self {
            V::U(n) => Some(*n as i128),
            V::N(n) => Some(-1 - (*n as i128)),
            _ => None,
        }
    }
    pub fn map(entries: Vec<(V, V)>) -> V {
        V::M(entries)
    }
    pub fn get(&self, key: &V) -> Option<&V> {
        match self {
            V::M(m) => m.iter().find(|(k, _)| k == key).map(|(_, v)| v),
            _ => None,
        }
    }
    pub fn get_t(&self, key: &str) -> Option<&V> {
        self.get(&V::t(key))
    }
    pub fn get_i(&self, key: i64) -> Option<&V> {
        self.get(&V::int(key))
    }
    pub fn as_map(&self) -> Option<&Vec<(V, V)>> {
        match self {
            V::M(m) => Some(m),
            _ => None,
        }
    }
    pub fn as_map_mut(&mut self) -> Option<&mut Vec<(V, V)>> {
        match self {
            V::M(m) => Some(m),
            _ => None,
        }
    }
    pub fn as_arr(&self) -> Option<&Vec<V>> {
        match self {
            V::A(m) => Some(m),
            _ => None,
        }
    }
    pub fn as_bytes(&self) -> Option<&[u8]> {
        match self {
            V::B(b) => Some(b),
            _ => None,
        }
    }
    pub fn as_text(&self) -> Option<&[u8]> {
        match self {
            V::T(b) => Some(b),
            _ => None,
        }
    }
    pub fn as_str(&self) -> Option<&str> {
        match self {
            V::T(b) => std::str::from_utf8(b).ok(),
            _ => None,
        }
    }
    pub fn as_u64(&self) -> Option<u64> {
        match self {
            V::U(n) => Some(*n),
            _ => None,
        }
    }
    pub fn as_bool(&self) -> Option<bool> {
        match self {
            V::Bool(b) => Some(*b),
            _ => None,
        }
    }
    /// data type name as used in fault menus
    pub fn kind(&self) -> &'static str {
        match self {
            V::U(_) => "unsigned",
            V::N(_) => "negative",
            V::B(_) => "bytes",
            V::T(_) => "text",
            V::A(_) => "array",
            V::M(_) => "map",
            V::Tag(..) => "tag",
            V::Bool(_) => "bool",
            V::Null => "null",
            V::Undef => "undefined",
            V::Simple(_) => "simple",
            V::F16(_) | V::F32(_) | V::F64(_) => "float",
        }
    }
    /// number of nodes in the tree
    pub fn nodes(&self) -> usize {
        match self {
            V::A(a) => 1 + a.iter().map(|x| x.nodes()).sum::<usize>(),
            V::M(m) => 1 + m.iter().map(|(k, v)| k.nodes() + v.nodes()).sum::<usize>(),
            V::Tag(_, v) => 1 + v.nodes(),
            _ => 1,
        }
    }
    /// Sort every map (recursively) into CTAP2 canonical key order.
    pub fn canon(mut self) -> V {
        self.canon_in_place();
        self
    }
    pub fn canon_in_place(&mut self) {
        match self {
            V::A(a) => a.iter_mut().for_each(|x| x.canon_in_place()),
            V::M(m) => {
                for (k, v) in m.iter_mut() {
                    k.canon_in_place();
                    v.canon_in_place();
                }
                m.sort_by(|a, b| key_order(&a.0).cmp(&key_order(&b.0)));
            }
            V::Tag(_, v) => v.canon_in_place(),
            _ => {}
        }
    }
    /// Compare as trees where maps are unordered sets of entries.
    pub fn eq_unordered(&self, other: &V) -> bool {
        match (self, other) {
            (V::M(a), V::M(b)) => {
                if a.len() != b.len() {
                    return false;
                }
                let mut used = vec![false; b.len()];
                'outer: for (ka, va) in a {
                    for (j, (kb, vb)) in b.iter().enumerate() {
                        if !used[j] && ka.eq_unordered(kb) && va.eq_unordered(vb) {
                            used[j] = true;
                            continue 'outer;
                        }
                    }
                    return false;
                }
                true
            }
            (V::A(a), V::A(b)) => {
                a.len() == b.len() && a.iter().zip(b).all(|(x, y)| x.eq_unordered(y))
            }
            (V::Tag(t, a), V::Tag(u, b)) => t == u && a.eq_unordered(b),
            (a, b) => a == b,
        }
    }
    pub fn contains_null(&self) -> bool {
        match self {
            V::Null => true,
            V::A(a) => a.iter().any(|x| x.contains_null()),
            V::M(m) => m.iter().any(|(k, v)| k.contains_null() || v.contains_null()),
            V::Tag(_, v) => v.contains_null(),
            _ => false,
        }
    }
}

/// CTAP2 canonical ordering key: (major type, encoded length, encoded bytes)
pub fn key_order(k: &V) -> (u8, usize, Vec<u8>) {
    let e = encode(k);
    (e[0] >> 5, e.len(), e)
}

pub fn head(major: u8, arg: u64, out: &mut Vec<u8>) {
    head_w(major, arg, min_width(arg), out)
}

/// width: 0 = immediate, 1, 2, 4, 8 bytes
pub fn min_width(arg: u64) -> u8 {
    if arg < 24 {
        0
    } else if arg <= 0xff {
        1
    } else if arg <= 0xffff {
        2
    } else if arg <= 0xffff_ffff {
        4
    } else {
        8
    }
}

pub fn head_w(major: u8, arg: u64, width: u8, out: &mut Vec<u8>) {
    let m = major << 5;
    match width {
        0 => out.push(m | arg as u8),
        1 => {
            out.push(m | 24);
            out.push(arg as u8)
        }
        2 => {
            out.push(m | 25);
            out.extend_from_slice(&(arg as u16).to_be_bytes())
        }
        4 => {
            out.push(m | 26);
            out.extend_from_slice(&(arg as u32).to_be_bytes())
        }
        8 => {
            out.push(m | 27);
            out.extend_from_slice(&arg.to_be_bytes())
        }
        _ => panic!("bad width"),
    }
}

pub fn encode(v: &V) -> Vec<u8> {
    let mut out = Vec::new();
    encode_to(v, &mut out);
    out
}

pub fn encode_to(v: &V, out: &mut Vec<u8>) {
    match v {
        V::U(n) => head(0, *n, out),
        V::N(n) => head(1, *n, out),
        V::B(b) => {
            head(2, b.len() as u64, out);
            out.extend_from_slice(b)
        }
        V::T(b) => {
            head(3, b.len() as u64, out);
            out.extend_from_slice(b)
        }
        V::A(a) => {
            head(4, a.len() as u64, out);
            for x in a {
                encode_to(x, out)
            }
        }
        V::M(m) => {
            head(5, m.len() as u64, out);
            for (k, x) in m {
                encode_to(k, out);
                encode_to(x, out)
            }
        }
        V::Tag(t, x) => {
            head(6, *t, out);
            encode_to(x, out)
        }
        V::Bool(false) => out.push(0xf4),
        V::Bool(true) => out.push(0xf5),
        V::Null => out.push(0xf6),
        V::Undef => out.push(0xf7),
        V::Simple(s) => {
            if *s < 24 {
                out.push(0xe0 | *s)
            } else {
                out.push(0xf8);
                out.push(*s)
            }
        }
        V::F16(x) => {
            out.push(0xf9);
            out.extend_from_slice(&x.to_be_bytes())
        }
        V::F32(x) => {
            out.push(0xfa);
            out.extend_from_slice(&x.to_be_bytes())
        }
        V::F64(x) => {
            out.push(0xfb);
            out.extend_from_slice(&x.to_be_bytes())
        }
    }
}

/// One encoded data item: where its head sits and where the item ends.
#[derive(Clone, Debug)]
pub struct Site {
    pub off: usize,
    pub head_len: usize,
    pub end: usize,
    pub major: u8,
    pub arg: u64,
    /// human readable path, e.g. `/2/"id"` ; keys are marked with `#k`
    pub path: String,
    pub is_key: bool,
    pub depth: usize,
}

pub fn encode_sites(v: &V) -> (Vec<u8>, Vec<Site>) {
    let mut out = Vec::new();
    let mut sites = Vec::new();
    fn go(v: &V, out: &mut Vec<u8>, sites: &mut Vec<Site>, path: &str, is_key: bool, depth: usize) {
        let off = out.len();
        let idx = sites.len();
        let (major, arg) = match v {
            V::U(n) => (0, *n),
            V::N(n) => (1, *n),
            V::B(b) => (2, b.len() as u64),
            V::T(b) => (3, b.len() as u64),
            V::A(a) => (4, a.len() as u64),
            V::M(m) => (5, m.len() as u64),
            V::Tag(t, _) => (6, *t),
            _ => (7, 0),
        };
        sites.push(Site {
            off,
            head_len: 0,
            end: 0,
            major,
            arg,
            path: path.to_string(),
            is_key,
            depth,
        });
        match v {
            V::A(a) => {
                head(4, a.len() as u64, out);
                sites[idx].head_len = out.len() - off;
                for (i, x) in a.iter().enumerate() {
                    go(x, out, sites, &format!("{}/[{}]", path, i), false, depth + 1);
                }
            }
            V::M(m) => {
                head(5, m.len() as u64, out);
                sites[idx].head_len = out.len() - off;
                for (k, x) in m {
                    let kp = format!("{}/{:?}", path, k);
                    go(k, out, sites, &format!("{}#k", kp), true, depth + 1);
                    go(x, out, sites, &kp, false, depth + 1);
                }
            }
            V::Tag(t, x) => {
                head(6, *t, out);
                sites[idx].head_len = out.len() - off;
                go(x, out, sites, &format!("{}/tag", path), false, depth + 1);
            }
            V::B(b) | V::T(b) => {
                head(major, b.len() as u64, out);
                sites[idx].head_len = out.len() - off;
                out.extend_from_slice(b);
            }
            V::U(_) | V::N(_) => {
                head(major, arg, out);
                sites[idx].head_len = out.len() - off;
            }
            other => {
                encode_to(other, out);
                sites[idx].head_len = out.len() - off;
            }
        }
        sites[idx].end = out.len();
    }
    go(v, &mut out, &mut sites, "", false, 0);
    (out, sites)
}

/// Re-encode the head at `site` `steps` widths longer than minimal. None if impossible.
pub fn widen_head(bytes: &[u8], site: &Site, steps: u8) -> Option<Vec<u8>> {
    if site.major == 7 {
        return None;
    }
    let widths = [0u8, 1, 2, 4, 8];
    let cur = widths.iter().position(|w| *w == min_width(site.arg)).unwrap();
    let new = cur + steps as usize;
    if new >= widths.len() {
        return None;
    }
    let mut out = bytes[..site.off].to_vec();
    head_w(site.major, site.arg, widths[new], &mut out);
    out.extend_from_slice(&bytes[site.off + site.head_len..]);
    Some(out)
}

/// Make the string/array/map at `site` indefinite-length. None if not applicable.
pub fn make_indefinite(bytes: &[u8], site: &Site) -> Option<Vec<u8>> {
    let mut out = bytes[..site.off].to_vec();
    match site.major {
        2 | 3 => {
            out.push(site.major << 5 | 31);
            // one definite chunk holding the whole content
            out.extend_from_slice(&bytes[site.off..site.end]);
            out.push(0xff);
        }
        4 | 5 => {
            out.push(site.major << 5 | 31);
            out.extend_from_slice(&bytes[site.off + site.head_len..site.end]);
            out.push(0xff);
        }
        _ => return None,
    }
    out.extend_from_slice(&bytes[site.end..]);
    Some(out)
}

#[derive(Debug, Clone, PartialEq, Eq)]
pub enum ParseError {
    UnexpectedEnd,
    Reserved(u8),
    Indefinite,
    BreakOutsideIndefinite,
    TooDeep,
}

pub struct Parsed {
    pub value: V,
    pub used: usize,
    /// every departure from CTAP2 canonical form, with its path
    pub issues: Vec<String>,
}

const MAX_DEPTH: usize = 4096;

/// Parse one definite-length data item. Indefinite lengths are a hard error (never produced by
/// anything we check positively); everything else that is merely non-canonical is recorded.
pub fn parse(bytes: &[u8]) -> Result<Parsed, ParseError> {
    let mut issues = Vec::new();
    let mut pos = 0usize;
    let value = parse_item(bytes, &mut pos, &mut issues, &mut String::new(), 0)?;
    Ok(Parsed {
        value,
        used: pos,
        issues,
    })
}

fn take<'a>(b: &'a [u8], pos: &mut usize, n: usize) -> Result<&'a [u8], ParseError> {
    if b.len() - *pos < n {
        return Err(ParseError::UnexpectedEnd);
    }
    let s = &b[*pos..*pos + n];
    *pos += n;
    Ok(s)
}

fn parse_item(
    b: &[u8],
    pos: &mut usize,
    issues: &mut Vec<String>,
    path: &mut String,
    depth: usize,
) -> Result<V, ParseError> {
    if depth > MAX_DEPTH {
        return Err(ParseError::TooDeep);
    }
    let ib = take(b, pos, 1)?[0];
    let major = ib >> 5;
    let ai = ib & 31;
    let mut arg = 0u64;
    let mut width = 0u8;
    match ai {
        0..=23 => arg = ai as u64,
        24 => {
            arg = take(b, pos, 1)?[0] as u64;
            width = 1
        }
        25 => {
            let s = take(b, pos, 2)?;
            arg = u16::from_be_bytes([s[0], s[1]]) as u64;
            width = 2
        }
        26 => {
            let s = take(b, pos, 4)?;
            arg = u32::from_be_bytes([s[0], s[1], s[2], s[3]]) as u64;
            width = 4
        }
        27 => {
            let s = take(b, pos, 8)?;
            arg = u64::from_be_bytes([s[0], s[1], s[2], s[3], s[4], s[5], s[6], s[7]]);
            width = 8
        }
        28..=30 => return Err(ParseError::Reserved(ib)),
        _ => {
            if major == 7 {
                return Err(ParseError::BreakOutsideIndefinite);
            }
            return Err(ParseError::Indefinite);
        }
    }
    if major != 7 && width != min_width(arg) {
        issues.push(format!("{}: non-minimal head {:02x} for argument {}", path, ib, arg));
    }
    Ok(match major {
        0 => V::U(arg),
        1 => V::N(arg),
        2 => {
            if arg > (b.len() - *pos) as u64 {
                return Err(ParseError::UnexpectedEnd);
            }
            V::B(take(b, pos, arg as usize)?.to_vec())
        }
        3 => {
            if arg > (b.len() - *pos) as u64 {
                return Err(ParseError::UnexpectedEnd);
            }
            let s = take(b, pos, arg as usize)?.to_vec();
            if std::str::from_utf8(&s).is_err() {
                issues.push(format!("{}: text string is not valid UTF-8", path));
            }
            V::T(s)
        }
        4 => {
            if arg > (b.len() - *pos) as u64 {
                return Err(ParseError::UnexpectedEnd);
            }
            let mut a = Vec::with_capacity(arg as usize);
            for i in 0..arg {
                let l = path.len();
                path.push_str(&format!("/[{}]", i));
                a.push(parse_item(b, pos, issues, path, depth + 1)?);
                path.truncate(l);
            }
            V::A(a)
        }
        5 => {
            if arg > (b.len() - *pos) as u64 {
                return Err(ParseError::UnexpectedEnd);
            }
            let mut m: Vec<(V, V)> = Vec::with_capacity(arg as usize);
            let mut prev: Option<(u8, usize, Vec<u8>)> = None;
            for _ in 0..arg {
                let l = path.len();
                let kstart = *pos;
                path.push_str("/<key>");
                let k = parse_item(b, pos, issues, path, depth + 1)?;
                path.truncate(l);
                let kb = b[kstart..*pos].to_vec();
                let ord = (kb[0] >> 5, kb.len(), kb);
                if let Some(p) = &prev {
                    if *p == ord {
                        issues.push(format!("{}: duplicate key {:?}", path, k));
                    } else if *p > ord {
                        issues.push(format!(
                            "{}: key order {:?} before {:?}",
                            path,
                            m.last().unwrap().0,
                            k
                        ));
                    }
                }
                if m.iter().rev().skip(1).any(|(k2, _)| *k2 == k) {
                    issues.push(format!("{}: duplicate key {:?}", path, k));
                }
                prev = Some(ord);
                path.push_str(&format!("/{:?}", k));
                let v = parse_item(b, pos, issues, path, depth + 1)?;
                path.truncate(l);
                m.push((k, v));
            }
            V::M(m)
        }
        6 => {
            issues.push(format!("{}: tag {}", path, arg));
            let l = path.len();
            path.push_str("/tag");
            let v = parse_item(b, pos, issues, path, depth + 1)?;
            path.truncate(l);
            V::Tag(arg, Box::new(v))
        }
        _ => match ai {
            20 => V::Bool(false),
            21 => V::Bool(true),
            22 => V::Null,
            23 => {
                issues.push(format!("{}: undefined", path));
                V::Undef
            }
            0..=19 => {
                issues.push(format!("{}: simple value {}", path, ai));
                V::Simple(ai)
            }
            24 => {
                issues.push(format!("{}: simple value {}", path, arg));
                if arg < 32 {
                    issues.push(format!("{}: two-byte simple value below 32", path));
                }
                V::Simple(arg as u8)
            }
            25 => {
                issues.push(format!("{}: float16", path));
                V::F16(arg as u16)
            }
            26 => {
                issues.push(format!("{}: float32", path));
                V::F32(arg as u32)
            }
            _ => {
                issues.push(format!("{}: float64", path));
                V::F64(arg)
            }
        },
    })
}

/// Strict CTAP2 canonical validation of a complete encoding: exactly one item, no trailing
/// bytes, no issue of any kind. Returns the tree or the list of problems.
pub fn validate_canonical(bytes: &[u8]) -> Result<V, Vec<String>> {
    match parse(bytes) {
        Err(e) => Err(vec![format!("not well-formed definite CBOR: {:?}", e)]),
        Ok(p) => {
            let mut issues = p.issues;
            if p.used != bytes.len() {
                issues.push(format!("{} trailing bytes after the item", bytes.len() - p.used));
            }
            if issues.is_empty() {
                Ok(p.value)
            } else {
                Err(issues)
            }
        }
    }
}

/// Self-check of this layer (run at the start of every harness process): encoder and parser must
/// be inverse on the grammar used by the explorations; the validator must accept every encoder
/// output in canonical order and reject each seeded non-canonical variant.
pub fn self_check() -> Result<usize, String> {
    let leaves = leaf_alphabet();
    let mut n = 0usize;
    let mut all: Vec<V> = leaves.clone();
    for a in &leaves {
        all.push(V::A(vec![a.clone()]));
        all.push(V::Tag(24, Box::new(a.clone())));
        for b in leaves.iter().take(12) {
            all.push(V::A(vec![a.clone(), b.clone()]));
            all.push(V::M(vec![(V::t("k"), a.clone()), (V::t("kk"), b.clone())]));
        }
    }
    for v in &all {
        let e = encode(v);
        let p = parse(&e).map_err(|e2| format!("parse(encode({:?})) failed: {:?}", v, e2))?;
        if p.used != e.len() || p.value != *v {
            return Err(format!("parse(encode(v)) != v for {:?}", v));
        }
        if encode(&p.value) != e {
            return Err(format!("encode(parse(b)) != b for {:?}", v));
        }
        let (e2, sites) = encode_sites(v);
        if e2 != e {
            return Err("encode_sites differs from encode".into());
        }
        // every widened head must be flagged, every indefinite variant must be refused
        for s in &sites {
            for steps in 1..=3 {
                if let Some(w) = widen_head(&e, s, steps) {
                    match parse(&w) {
                        Ok(pp) if pp.issues.iter().any(|i| i.contains("non-minimal")) => {}
                        other => {
                            return Err(format!(
                                "widened head not flagged for {:?}: {:?}",
                                v,
                                other.map(|x| x.issues)
                            ))
                        }
                    }
                }
            }
            if let Some(w) = make_indefinite(&e, s) {
                if parse(&w).is_ok() {
                    return Err(format!("indefinite variant accepted for {:?}", v));
                }
            }
        }
        n += 1;
    }
    // order / duplicates / trailing
    let good = V::M(vec![(V::U(1), V::U(0)), (V::U(24), V::U(0)), (V::N(0), V::U(0)), (V::t("b"), V::U(0)), (V::t("aa"), V::U(0))]);
    if validate_canonical(&encode(&good)).is_err() {
        return Err("canonical map rejected".into());
    }
    if good.clone().canon() != good {
        return Err("canon() reorders a canonical map".into());
    }
    let bad = [
        V::M(vec![(V::t("aa"), V::U(0)), (V::t("b"), V::U(0))]),
        V::M(vec![(V::t("b"), V::U(0)), (V::t("a"), V::U(0))]),
        V::M(vec![(V::t("a"), V::U(0)), (V::t("a"), V::U(0))]),
        V::M(vec![(V::N(0), V::U(0)), (V::U(24), V::U(0))]),
        V::A(vec![V::M(vec![(V::U(2), V::U(0)), (V::U(1), V::U(0))])]),
    ];
    for b in &bad {
        if validate_canonical(&encode(b)).is_ok() {
            return Err(format!("non-canonical map accepted: {:?}", b));
        }
        if validate_canonical(&encode(&b.clone().canon())).is_ok() != !format!("{:?}", b).contains("\"a\": 0, \"a\"") {
            return Err(format!("canon() did not repair order: {:?}", b));
        }
    }
    let mut tr = encode(&good);
    tr.push(0);
    if validate_canonical(&tr).is_ok() {
        return Err("trailing byte accepted".into());
    }
    Ok(n)
}

/// Leaf alphabet shared by the self-check and by C06's value grammar.
pub fn leaf_alphabet() -> Vec<V> {
    vec![
        V::U(0),
        V::U(23),
        V::U(24),
        V::U(255),
        V::U(256),
        V::U(65536),
        V::U(1 << 32),
        V::U(u64::MAX),
        V::N(0),
        V::N(24),
        V::N(u64::MAX),
        V::B(vec![]),
        V::B(vec![0]),
        V::B((0..24).collect()),
        V::T(vec![]),
        V::t("a"),
        V::t("abcdefghijklmnopqrstuvwx"),
        V::Bool(false),
        V::Bool(true),
        V::Null,
        V::Undef,
        V::Simple(0),
        V::Simple(255),
        V::F16(0x3c00),
        V::F32(0x3f800000),
        V::F64(0x3ff0000000000000),
    ]
}
