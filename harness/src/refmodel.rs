//! Reference semantics over the spec tables: wire tree -> named view (with the documented lossy
//! members), message plans (presence bits, leaf menus), fillers. No ctap-types item is named here.

use crate::refcbor::V;
use crate::spec::*;

// ------------------------------------------------------------------ reference decoder

type R = Result<Option<V>, u8>;

const BAD: u8 = ST_INVALID_CBOR;
const MISSING: u8 = ST_MISSING_PARAMETER;

pub fn floor_boundary(s: &str, max: usize) -> usize {
    if s.len() <= max {
        return s.len();
    }
    let mut i = max;
    while !s.is_char_boundary(i) {
        i -= 1;
    }
    i
}

fn text_of(w: &V) -> Result<&str, u8> {
    match w {
        V::T(b) => std::str::from_utf8(b).map_err(|_| BAD),
        _ => Err(BAD),
    }
}

/// Decode a wire value according to `ty`. Ok(None) = "member reported absent" (lossy skip).
pub fn decode(ty: &Ty, w: &V) -> R {
    Ok(Some(match ty {
        Ty::Uint(max) => match w {
            V::U(n) if n <= max => V::U(*n),
            _ => return Err(BAD),
        },
        Ty::Int32 => match w.as_i128() {
            Some(i) if i >= i32::MIN as i128 && i <= i32::MAX as i128 => w.clone(),
            _ => return Err(BAD),
        },
        Ty::Bool => match w {
            V::Bool(_) => w.clone(),
            _ => return Err(BAD),
        },
        Ty::Bytes(max) => match w {
            V::B(b) if max.map_or(true, |m| b.len() <= m) => w.clone(),
            _ => return Err(BAD),
        },
        Ty::BytesExact(n) => match w {
            V::B(b) if b.len() == *n => w.clone(),
            _ => return Err(BAD),
        },
        Ty::Text(max) => {
            let s = text_of(w)?;
            if max.map_or(false, |m| s.len() > m) {
                return Err(BAD);
            }
            w.clone()
        }
        Ty::TextTrunc(n) => {
            let s = text_of(w)?;
            V::t(&s[..floor_boundary(s, *n)])
        }
        Ty::TextSkip(n) => {
            let s = text_of(w)?;
            if s.len() > *n {
                return Ok(None);
            }
            w.clone()
        }
        Ty::Icon => {
            text_of(w)?;
            V::Bool(true)
        }
        Ty::List(elem, max) => match w {
            V::A(a) => {
                if max.map_or(false, |m| a.len() > m) {
                    return Err(BAD);
                }
                let mut out = Vec::new();
                for x in a {
                    match decode(elem, x)? {
                        Some(v) => out.push(v),
                        None => {}
                    }
                }
                V::A(out)
            }
            _ => return Err(BAD),
        },
        Ty::Params => match w {
            V::A(a) => {
                let entry = cred_param();
                let mut out = Vec::new();
                for x in a {
                    let v = decode(&entry, x)?.unwrap();
                    let alg = v.get_t("alg").unwrap().as_i128().unwrap();
                    let ty = v.get_t("type").unwrap().as_str().unwrap().to_string();
                    if ty == PUBLIC_KEY && KNOWN_ALGS.iter().any(|k| *k as i128 == alg) && out.len() < 2 {
                        out.push(V::int(alg as i64));
                    }
                }
                V::A(out)
            }
            _ => return Err(BAD),
        },
        Ty::ParamsOut => match w {
            V::A(a) if a.len() <= 2 => {
                let entry = cred_param();
                let mut out = Vec::new();
                for x in a {
                    let v = decode(&entry, x)?.unwrap();
                    if v.get_t("type").unwrap().as_str() != Some(PUBLIC_KEY) {
                        return Err(BAD);
                    }
                    out.push(v.get_t("alg").unwrap().clone());
                }
                V::A(out)
            }
            _ => return Err(BAD),
        },
        Ty::Formats => match w {
            V::A(a) => {
                let mut known = Vec::new();
                let mut unknown = false;
                for x in a {
                    let s = text_of(x)?;
                    if KNOWN_FORMATS.contains(&s) {
                        if known.len() < 2 {
                            known.push(V::t(s));
                        }
                    } else {
                        unknown = true;
                    }
                }
                V::M(vec![(V::t("known"), V::A(known)), (V::t("unknown"), V::Bool(unknown))])
            }
            _ => return Err(BAD),
        },
        Ty::Enum(vals) => match w {
            V::U(n) if vals.contains(n) => w.clone(),
            _ => return Err(BAD),
        },
        Ty::TextEnum(vals) => {
            let s = text_of(w)?;
            if !vals.contains(&s) {
                return Err(BAD);
            }
            w.clone()
        }
        Ty::Struct(keys, fields) => {
            let m = match w {
                V::M(m) => m,
                _ => return Err(BAD),
            };
            let mut slots: Vec<Option<Option<V>>> = vec![None; fields.len()];
            for (k, v) in m {
                let idx = match (keys, k) {
                    (Keys::Int, V::U(_)) | (Keys::Int, V::N(_)) => {
                        let ki = k.as_i128().unwrap();
                        fields.iter().position(|f| matches!(f.key, Key::I(i) if i as i128 == ki))
                    }
                    (Keys::Text, V::T(_)) => {
                        let ks = text_of(k)?;
                        fields
                            .iter()
                            .position(|f| matches!(f.key, Key::T(t) if t == ks) || f.aliases.contains(&ks))
                    }
                    _ => return Err(BAD),
                };
                match idx {
                    None => {
                        if *keys == Keys::Int {
                            return Err(BAD);
                        }
                        // unknown text-keyed member: skipped
                    }
                    Some(i) => {
                        if slots[i].is_some() {
                            return Err(BAD);
                        }
                        slots[i] = Some(decode(&fields[i].ty, v)?);
                    }
                }
            }
            let mut out = Vec::new();
            for (i, f) in fields.iter().enumerate() {
                match slots[i].take() {
                    None => {
                        if f.req {
                            return Err(MISSING);
                        }
                    }
                    Some(None) => {}
                    Some(Some(v)) => out.push((V::t(f.name), v)),
                }
            }
            V::M(out)
        }
        Ty::Cose(mode) => return decode_cose(*mode, w),
        Ty::AttStmt => {
            let m = match w {
                V::M(m) => m,
                _ => return Err(BAD),
            };
            if m.is_empty() {
                V::M(vec![(V::t("kind"), V::t("none"))])
            } else {
                let mut out = vec![(V::t("kind"), V::t("packed"))];
                for n in ["alg", "sig", "x5c"] {
                    if let Some(v) = w.get_t(n) {
                        out.push((V::t(n), v.clone()));
                    }
                }
                V::M(out)
            }
        }
        Ty::EmptyMap => match w {
            V::M(m) if m.is_empty() => V::M(vec![]),
            _ => return Err(BAD),
        },
    }))
}

fn decode_cose(mode: CoseMode, w: &V) -> R {
    let m = match w {
        V::M(m) => m,
        _ => return Err(BAD),
    };
    // labels must come in the order 1, 3, -1, -2, -3, each at most once
    let order = [1i128, 3, -1, -2, -3];
    let mut last = -1i32;
    let mut vals: [Option<&V>; 5] = [None; 5];
    for (k, v) in m {
        let ki = k.as_i128().ok_or(BAD)?;
        let pos = order.iter().position(|o| *o == ki).ok_or(BAD)? as i32;
        if pos <= last {
            return Err(BAD);
        }
        last = pos;
        vals[pos as usize] = Some(v);
    }
    let small = |v: &V| -> Result<i128, u8> {
        let i = v.as_i128().ok_or(BAD)?;
        if (-128..=127).contains(&i) {
            Ok(i)
        } else {
            Err(BAD)
        }
    };
    let coord = |v: Option<&V>| -> Result<Option<V>, u8> {
        match v {
            None => Ok(None),
            Some(V::B(b)) if b.len() <= 32 => Ok(Some(V::B(b.clone()))),
            Some(_) => Err(BAD),
        }
    };
    let kty = vals[0].map(small).transpose()?;
    let alg = vals[1].map(small).transpose()?;
    let crv = vals[2].map(small).transpose()?;
    let x = coord(vals[3])?;
    let y = coord(vals[4])?;
    match mode {
        CoseMode::Ecdh => {
            let kty = kty.ok_or(MISSING)?;
            if kty != 2 {
                return Err(BAD);
            }
            if let Some(a) = alg {
                if a != -25 {
                    return Err(BAD);
                }
            }
            let crv = crv.ok_or(MISSING)?;
            if crv != 1 {
                return Err(BAD);
            }
            let x = x.ok_or(MISSING)?;
            let y = y.ok_or(MISSING)?;
            Ok(Some(V::M(vec![(V::t("x"), x), (V::t("y"), y)])))
        }
        CoseMode::Any => {
            let kind = match (kty, alg, crv) {
                (Some(2), Some(-7), Some(1)) => "p256",
                (Some(2), Some(-25), Some(1)) => "ecdh",
                (Some(1), Some(-8), Some(6)) => "ed25519",
                (Some(4), Some(-9), None) => "totp",
                _ => return Err(BAD),
            };
            let mut out = vec![(V::t("kind"), V::t(kind))];
            if let Some(x) = x {
                out.push((V::t("x"), x));
            }
            if let Some(y) = y {
                out.push((V::t("y"), y));
            }
            Ok(Some(V::M(out)))
        }
    }
}

pub fn cose_wire(kind: &str, x: &[u8], y: &[u8]) -> V {
    let (kty, alg, crv): (i64, i64, Option<i64>) = match kind {
        "p256" => (2, -7, Some(1)),
        "ecdh" => (2, -25, Some(1)),
        "ed25519" => (1, -8, Some(6)),
        "totp" => (4, -9, None),
        _ => panic!("cose kind"),
    };
    let mut m = vec![(V::U(1), V::int(kty)), (V::U(3), V::int(alg))];
    if let Some(c) = crv {
        m.push((V::N(0), V::int(c)));
    }
    if kind != "totp" {
        m.push((V::N(1), V::b(x)));
    }
    if kind == "p256" || kind == "ecdh" {
        m.push((V::N(2), V::b(y)));
    }
    V::M(m)
}

/// Decode a complete CTAP2 request message (command byte + parameters) by the book.
/// Ok(view) has the shape {"cmd": name, "params": view-of-parameters?}.
pub fn decode_request_tree(cmd_byte: u8, params: Option<&V>) -> Result<V, u8> {
    let cmd = command_of(cmd_byte).ok_or(ST_INVALID_COMMAND)?;
    let name = format!("{:?}", cmd);
    match request_schema(cmd) {
        None => Ok(V::M(vec![(V::t("cmd"), V::t(&name))])),
        Some(schema) => {
            let p = params.ok_or(BAD)?;
            let view = decode(&schema, p)?.unwrap();
            Ok(V::M(vec![(V::t("cmd"), V::t(&name)), (V::t("params"), view)]))
        }
    }
}

// ------------------------------------------------------------------ fillers

pub fn seed() -> u64 {
    use std::sync::OnceLock;
    static S: OnceLock<u64> = OnceLock::new();
    *S.get_or_init(|| {
        std::env::var("VERIF_SEED")
            .ok()
            .and_then(|s| s.parse::<u64>().ok())
            .unwrap_or(0)
    })
}

pub fn fill_bytes(len: usize, salt: usize) -> Vec<u8> {
    let s = seed() as usize;
    (0..len).map(|i| ((salt * 37 + s + 7 * i + 1) % 256) as u8).collect()
}

pub fn fill_text(len: usize, salt: usize) -> String {
    let s = seed() as usize;
    (0..len)
        .map(|i| (b'a' + ((salt * 5 + s + i) % 26) as u8) as char)
        .collect()
}

/// text of exactly `len` bytes made of `width`-byte characters (padded with ASCII at the front)
pub fn fill_wide(len: usize, width: usize) -> String {
    let ch = match width {
        1 => 'x',
        2 => 'é',
        3 => '€',
        _ => '😀',
    };
    let n = len / width;
    let pad = len - n * width;
    let mut s = String::new();
    for _ in 0..pad {
        s.push('p');
    }
    for _ in 0..n {
        s.push(ch);
    }
    debug_assert_eq!(s.len(), len);
    s
}

// ------------------------------------------------------------------ plans

#[derive(Clone, Copy, Debug, PartialEq)]
pub enum Side {
    /// request: menus include the lossy cases (over-long names, icons, unknown algorithms)
    Request,
    /// response / round trip: menus stay in the loss-free domain
    Response,
}

#[derive(Clone, Debug)]
pub struct OptInfo {
    pub path: String,
    pub parent: Option<usize>,
}

#[derive(Clone, Debug)]
pub struct LeafInfo {
    pub path: String,
    pub menu: Vec<V>,
    /// nearest enclosing optional member (None = always present)
    pub guard: Option<usize>,
}

#[derive(Clone, Debug)]
enum Node {
    Leaf(usize),
    Struct(Vec<(V, Option<usize>, Node)>),
}

#[derive(Clone, Debug)]
pub struct Plan {
    root: Node,
    pub opts: Vec<OptInfo>,
    pub leaves: Vec<LeafInfo>,
}

impl Plan {
    pub fn new(ty: &Ty, side: Side) -> Plan {
        let mut p = Plan {
            root: Node::Leaf(0),
            opts: vec![],
            leaves: vec![],
        };
        p.root = p.plan(ty, side, "", None);
        assert!(p.opts.len() <= 64);
        p
    }

    fn plan(&mut self, ty: &Ty, side: Side, path: &str, guard: Option<usize>) -> Node {
        match ty {
            Ty::Struct(_, fields) => {
                let mut out = Vec::new();
                for f in fields {
                    let fpath = format!("{}/{}", path, f.name);
                    let (opt, g) = if f.req {
                        (None, guard)
                    } else {
                        self.opts.push(OptInfo {
                            path: fpath.clone(),
                            parent: guard,
                        });
                        let id = self.opts.len() - 1;
                        (Some(id), Some(id))
                    };
                    let node = self.plan(&f.ty, side, &fpath, g);
                    out.push((f.key.v(), opt, node));
                }
                Node::Struct(out)
            }
            leaf => {
                let id = self.leaves.len();
                let menu = menu(leaf, id, side);
                self.leaves.push(LeafInfo {
                    path: path.to_string(),
                    menu,
                    guard,
                });
                Node::Leaf(id)
            }
        }
    }

    pub fn full_mask(&self) -> u64 {
        if self.opts.len() == 64 {
            u64::MAX
        } else {
            (1u64 << self.opts.len()) - 1
        }
    }

    /// a mask is valid iff every present member's parent is present
    pub fn valid(&self, mask: u64) -> bool {
        self.opts.iter().enumerate().all(|(i, o)| {
            mask >> i & 1 == 0 || o.parent.map_or(true, |p| mask >> p & 1 == 1)
        })
    }

    /// clear every descendant of cleared members
    pub fn normalize(&self, mut mask: u64) -> u64 {
        for (i, o) in self.opts.iter().enumerate() {
            if let Some(p) = o.parent {
                if mask >> p & 1 == 0 {
                    mask &= !(1u64 << i);
                }
            }
        }
        mask
    }

    /// set every ancestor of the set members
    pub fn normalize_up(&self, mut mask: u64) -> u64 {
        for i in (0..self.opts.len()).rev() {
            if mask >> i & 1 == 1 {
                let mut p = self.opts[i].parent;
                while let Some(pp) = p {
                    mask |= 1u64 << pp;
                    p = self.opts[pp].parent;
                }
            }
        }
        mask
    }

    pub fn opt_index(&self, path: &str) -> usize {
        self.opts
            .iter()
            .position(|o| o.path == path)
            .unwrap_or_else(|| panic!("no optional member {}", path))
    }

    pub fn leaf_index(&self, path: &str) -> usize {
        self.leaves
            .iter()
            .position(|o| o.path == path)
            .unwrap_or_else(|| panic!("no leaf {}", path))
    }

    pub fn leaf_enabled(&self, leaf: usize, mask: u64) -> bool {
        let mut g = self.leaves[leaf].guard;
        while let Some(i) = g {
            if mask >> i & 1 == 0 {
                return false;
            }
            g = self.opts[i].parent;
        }
        true
    }

    /// Build the wire tree: members per `mask`, leaf values from the menus (`devs` = (leaf, menu
    /// index) pairs, default index 0), maps in CTAP2 canonical order.
    pub fn build(&self, mask: u64, devs: &[(usize, usize)]) -> V {
        self.build_node(&self.root, mask, devs, &[])
    }

    /// like `build` but with explicit replacement values for some leaves
    pub fn build_with(&self, mask: u64, devs: &[(usize, usize)], repl: &[(usize, V)]) -> V {
        self.build_node(&self.root, mask, devs, repl)
    }

    fn build_node(&self, n: &Node, mask: u64, devs: &[(usize, usize)], repl: &[(usize, V)]) -> V {
        match n {
            Node::Leaf(id) => {
                if let Some((_, v)) = repl.iter().find(|(l, _)| l == id) {
                    return v.clone();
                }
                let idx = devs.iter().find(|(l, _)| l == id).map_or(0, |(_, i)| *i);
                self.leaves[*id].menu[idx].clone()
            }
            Node::Struct(fields) => {
                let mut m = Vec::new();
                for (k, opt, node) in fields {
                    if let Some(o) = opt {
                        if mask >> o & 1 == 0 {
                            continue;
                        }
                    }
                    m.push((k.clone(), self.build_node(node, mask, devs, repl)));
                }
                let mut v = V::M(m);
                if let V::M(m) = &mut v {
                    m.sort_by(|a, b| crate::refcbor::key_order(&a.0).cmp(&crate::refcbor::key_order(&b.0)));
                }
                v
            }
        }
    }

    pub fn describe_mask(&self, mask: u64) -> String {
        let mut s = Vec::new();
        for (i, o) in self.opts.iter().enumerate() {
            if mask >> i & 1 == 1 {
                s.push(o.path.clone());
            }
        }
        format!("{{{}}}", s.join(","))
    }
}

/// content classes (rather than sizes): all-zero, all-ones, and one value shared by every byte
/// member so that two members can carry the very same value
fn content_bytes(len: usize) -> Vec<V> {
    let mut v = vec![V::B(vec![0x00; len]), V::B(vec![0xff; len]), V::B(vec![0x5a; 16.min(len)])];
    if len >= 12 {
        // looks like a DER object whose header announces fewer bytes than follow, and one that
        // announces exactly the rest (a certificate with trailing bytes / two concatenated objects)
        let mut d = vec![0x33u8; len];
        d[..4].copy_from_slice(&[0x30, 0x82, 0x00, 0x05]);
        v.push(V::B(d.clone()));
        d[2] = ((len - 4) >> 8) as u8;
        d[3] = (len - 4) as u8;
        v.push(V::B(d));
    }
    v
}

/// reserved / unusual characters, an embedded NUL, surrounding blanks, mixed-width non-ASCII, and
/// one value shared by every text member
fn content_texts(max: usize) -> Vec<V> {
    ["a.b-c_d:/?#[]@!$&'()*+,;=%20", "\u{0}x\u{0}", " lead and trail ", "\u{c4}\u{d6}\u{20ac}\u{1f600}", "same-value", "{\"k\":[1,2]}", "\\\"\n\t"]
        .iter()
        .filter(|s| s.len() <= max)
        .map(|s| V::t(s))
        .collect()
}

fn dedup(mut v: Vec<V>) -> Vec<V> {
    let mut out: Vec<V> = Vec::new();
    for x in v.drain(..) {
        if !out.contains(&x) {
            out.push(x);
        }
    }
    out
}

/// IANA COSE algorithm identifiers used with WebAuthn (signature algorithms and a few others)
pub const REGISTERED_ALGS: [i64; 22] = [-65535, -260, -259, -258, -257, -47, -46, -45, -44, -39, -38, -37, -36, -35, -9, -8, -7, -6, -5, 1, 3, 5];

pub fn descriptor(i: usize, idlen: usize) -> V {
    V::M(vec![(V::t("id"), V::B(fill_bytes(idlen, 100 + i))), (V::t("type"), V::t(PUBLIC_KEY))])
}

pub fn param(alg: i64, ty: &str) -> V {
    V::M(vec![(V::t("alg"), V::int(alg)), (V::t("type"), V::t(ty))])
}

fn default_elem(ty: &Ty, i: usize) -> V {
    match ty {
        Ty::Struct(..) => descriptor(i, 16 + i % 7),
        Ty::TextEnum(vals) => V::t(vals[i % vals.len()]),
        Ty::Uint(max) => V::U((1 + i as u64).min(*max)),
        other => menu(other, i, Side::Response)[0].clone(),
    }
}

fn list_of(ty: &Ty, n: usize) -> V {
    V::A((0..n).map(|i| default_elem(ty, i)).collect())
}

/// Ordered value menu of a leaf type; index 0 is the anchor default, chosen so that leaves of
/// the same type carry different defaults (distinctness rule).
pub fn menu(ty: &Ty, id: usize, side: Side) -> Vec<V> {
    let req = side == Side::Request;
    let lens_text = |lens: &[usize]| -> Vec<V> { lens.iter().map(|l| V::t(&fill_text(*l, id))).collect() };
    let lens_bytes = |lens: &[usize]| -> Vec<V> { lens.iter().map(|l| V::B(fill_bytes(*l, id))).collect() };
    dedup(match ty {
        Ty::Uint(max) => {
            let mut v = vec![V::U((1 + id as u64).min(*max))];
            for x in [0u64, 23, 24, 255, 256, 65535, 65536, u32::MAX as u64, 1 << 32, u64::MAX] {
                if x <= *max {
                    v.push(V::U(x));
                }
            }
            v.push(V::U(*max));
            // small values with protocol meaning (versions, sub-commands, policies)
            for x in [1u64, 2, 3, 4, 5] {
                if x <= *max {
                    v.push(V::U(x));
                }
            }
            if *max > 255 {
                // values a protocol or an implementation may treat as a default or a limit:
                // powers of two, decimal round numbers, and the size constants of the protocol
                for x in [1u64, 2, 4, 8, 10, 16, 32, 63, 64, 100, 128, 512, 1000, 1024, 2048, 3008, 3009, 3072, 4096, 7609, 676, 77] {
                    v.push(V::U(x));
                }
            }
            v
        }
        Ty::Int32 => [-7i64, -8, -1, -24, -25, -256, -257, -65536, -65537, i32::MIN as i64, 0, 23, 24, i32::MAX as i64]
            .iter()
            .map(|i| V::int(*i))
            .collect(),
        Ty::Bool => {
            let d = id % 2 == 0;
            vec![V::Bool(d), V::Bool(!d)]
        }
        Ty::Bytes(None) => {
            let mut v = lens_bytes(&[32, 0, 1, 23, 24, 31, 33, 255, 256, 1024, 3008, 3009]);
            v.extend(content_bytes(32));
            v
        }
        Ty::Bytes(Some(c)) => {
            let c = *c;
            let mut lens = vec![c.min(16 + id % 5), 0, c.min(1), c.saturating_sub(1), c];
            for t in [23usize, 24, 255, 256] {
                if t <= c {
                    lens.push(t);
                }
            }
            let mut v = lens_bytes(&lens);
            v.extend(content_bytes(c.min(16)));
            v
        }
        Ty::BytesExact(n) => vec![V::B(fill_bytes(*n, id)), V::B(vec![0; *n]), V::B(vec![0xff; *n])],
        Ty::Text(None) => {
            let mut v = lens_text(&[11, 0, 1, 23, 24, 255, 256, 300]);
            v.extend(content_texts(usize::MAX));
            v
        }
        Ty::Text(Some(c)) => {
            let c = *c;
            let mut lens = vec![c.min(10), 0, 1, c - 1, c];
            for t in [23usize, 24, 255, 256] {
                if t <= c {
                    lens.push(t);
                }
            }
            let mut v = lens_text(&lens);
            v.extend(content_texts(c));
            v
        }
        Ty::TextTrunc(n) => {
            let n = *n;
            let mut v = lens_text(&[8, 0, 1, n - 1, n]);
            v.push(V::t(&fill_wide(n, 2)));
            v.extend(content_texts(n));
            // exactly at capacity with a blank at either end (nothing to cut, nothing to trim)
            v.push(V::t(&format!("{} ", "e".repeat(n - 1))));
            v.push(V::t(&format!("{}\u{3000}", "e".repeat(n - 3))));
            v.push(V::t(&format!(" {}", "e".repeat(n - 1))));
            v.push(V::t(&format!("{}\u{200d}", "e".repeat(n - 3))));
            v.push(V::t(&format!("{}\r\n", "e".repeat(n - 2))));
            v.push(V::t(&format!("{}\u{0}", "e".repeat(n - 1))));
            if req {
                v.extend(lens_text(&[n + 1, 200]));
                v.push(V::t(&fill_wide(n + 2, 3)));
                v.push(V::t(&fill_wide(n + 2, 4)));
                v.push(V::t(&fill_wide(n + 1, 2)));
                // four-byte characters starting at n-3, n-2, n-1 (the cut falls inside one)
                for pad in 1..=3usize {
                    v.push(V::t(&format!("{}{}", "p".repeat(pad), fill_wide(n + 4, 4))));
                }
                // ... and of the last plane (lead byte F4), starting at n-3
                v.push(V::t(&format!("p{}", "\u{10ffff}".repeat(n / 4 + 1))));
            }
            v
        }
        Ty::TextSkip(n) => {
            let n = *n;
            let mut v = lens_text(&[12, 0, 1, n - 1, n]);
            v.extend(content_texts(n));
            if req {
                v.extend(lens_text(&[n + 1, 300]));
            }
            v
        }
        Ty::Icon => lens_text(&[13, 0, 300]),
        Ty::List(elem, max) => {
            let mut v = vec![list_of(elem, 2.min(max.unwrap_or(2)))];
            v.push(list_of(elem, 0));
            v.push(list_of(elem, 1));
            if let Some(m) = max {
                v.push(list_of(elem, m - 1));
                v.push(list_of(elem, *m));
            }
            // repeated entries (a platform may list the same credential / value twice)
            let cap = max.unwrap_or(usize::MAX);
            if cap >= 2 {
                v.push(V::A(vec![default_elem(elem, 0), default_elem(elem, 0)]));
            }
            if cap >= 3 {
                v.push(V::A(vec![default_elem(elem, 0), default_elem(elem, 1), default_elem(elem, 0)]));
            }
            if let Ty::Struct(..) = **elem {
                // entries of very different sizes: empty id, id at a head-width boundary
                if cap >= 3 {
                    v.push(V::A(vec![descriptor(0, 0), descriptor(1, 255), descriptor(2, 256)]));
                }
                v.push(V::A(vec![descriptor(3, 24)]));
            }
            v
        }
        Ty::Params => {
            if req {
                let mut long: Vec<V> = (0..15).map(|i| param(-40 - i, PUBLIC_KEY)).collect();
                long.push(param(-8, PUBLIC_KEY));
                long.push(param(-7, PUBLIC_KEY));
                vec![
                    // anchor default: a known entry, an unknown one, the second known one, and one more
                    // entry behind both recognised ones (entries after the list is "full" matter too)
                    V::A(vec![param(-7, PUBLIC_KEY), param(-257, PUBLIC_KEY), param(-8, PUBLIC_KEY), param(-7, PUBLIC_KEY)]),
                    V::A(vec![]),
                    V::A(vec![param(-7, "Public-Key"), param(-8, "PUBLIC-KEY"), param(-8, PUBLIC_KEY)]),
                    V::A(vec![param(-8, PUBLIC_KEY)]),
                    V::A(vec![param(-8, "private-key"), param(-8, PUBLIC_KEY), param(-7, PUBLIC_KEY), param(-8, PUBLIC_KEY)]),
                    V::A(vec![param(-7, PUBLIC_KEY), param(-7, PUBLIC_KEY)]),
                    V::A(long),
                    V::A(vec![param(i32::MIN as i64, PUBLIC_KEY), param(i32::MAX as i64, &fill_text(32, 3))]),
                    // every registered COSE signature algorithm a platform may offer, the two supported
                    // ones in the middle
                    V::A(REGISTERED_ALGS.iter().map(|a| param(*a, PUBLIC_KEY)).collect()),
                ]
            } else {
                vec![
                    V::A(vec![param(-7, PUBLIC_KEY)]),
                    V::A(vec![]),
                    V::A(vec![param(-8, PUBLIC_KEY), param(-7, PUBLIC_KEY)]),
                    V::A(vec![param(-7, PUBLIC_KEY), param(-8, PUBLIC_KEY)]),
                    V::A(vec![param(-7, PUBLIC_KEY), param(-7, PUBLIC_KEY)]),
                    V::A(vec![param(-8, PUBLIC_KEY), param(-8, PUBLIC_KEY)]),
                    V::A(vec![param(-8, PUBLIC_KEY)]),
                ]
            }
        }
        Ty::ParamsOut => vec![
            V::A(vec![param(-7, PUBLIC_KEY)]),
            V::A(vec![]),
            V::A(vec![param(-8, PUBLIC_KEY), param(-7, PUBLIC_KEY)]),
            V::A(vec![param(-257, PUBLIC_KEY)]),
            V::A(vec![param(-7, PUBLIC_KEY), param(-7, PUBLIC_KEY)]),
            V::A(vec![param(-7, PUBLIC_KEY), param(-8, PUBLIC_KEY)]),
            V::A(vec![param(-7, PUBLIC_KEY), param(-65537, PUBLIC_KEY)]),
            V::A(vec![param(i32::MIN as i64, PUBLIC_KEY), param(i32::MAX as i64, PUBLIC_KEY)]),
        ],
        Ty::Formats => vec![
            // anchor default: both known formats, an unknown one, and entries behind the point where
            // both slots are taken and the flag is set (what happens to later entries matters too)
            V::A(vec![V::t("packed"), V::t("tpm"), V::t("none"), V::t("apple"), V::t("packed")]),
            V::A(vec![V::t("packed"), V::t("tpm"), V::t("none")]),
            V::A(vec![]),
            V::A(vec![V::t("none")]),
            V::A(vec![V::t("tpm")]),
            V::A(vec![V::t("none"), V::t("packed"), V::t("none")]),
            V::A(vec![V::t("none"), V::t("packed")]),
            V::A(vec![V::t("packed"), V::t("none"), V::t("tpm")]),
            V::A(vec![V::t("Packed"), V::t("NONE")]),
            V::A(vec![V::t("packed"), V::t("packed"), V::t("none")]),
            V::A(vec![V::t("none"), V::t("apple"), V::t("none"), V::t("tpm"), V::t("packed")]),
        ],
        Ty::Enum(vals) => {
            let mut v = vec![V::U(vals[id % vals.len()])];
            v.extend(vals.iter().map(|x| V::U(*x)));
            v
        }
        Ty::TextEnum(vals) => {
            let mut v = vec![V::t(vals[id % vals.len()])];
            v.extend(vals.iter().map(|x| V::t(x)));
            v
        }
        Ty::Cose(CoseMode::Ecdh) => vec![
            cose_wire("ecdh", &fill_bytes(32, id), &fill_bytes(32, id + 50)),
            cose_wire("ecdh", &[], &[]),
            cose_wire("ecdh", &fill_bytes(31, id), &fill_bytes(1, id + 50)),
        ],
        Ty::Cose(CoseMode::Any) => vec![
            cose_wire("p256", &fill_bytes(32, id), &fill_bytes(32, id + 50)),
            cose_wire("ecdh", &fill_bytes(32, id + 1), &fill_bytes(32, id + 51)),
            cose_wire("ed25519", &fill_bytes(32, id + 2), &[]),
            cose_wire("totp", &[], &[]),
            cose_wire("p256", &[], &fill_bytes(31, id)),
        ],
        Ty::AttStmt => {
            let packed = |alg: i64, sig: usize, x5c: Option<usize>| {
                let mut m = vec![(V::t("alg"), V::int(alg)), (V::t("sig"), V::B(fill_bytes(sig, id)))];
                if let Some(c) = x5c {
                    m.push((V::t("x5c"), V::A(vec![V::B(fill_bytes(c, id + 9))])));
                }
                V::M(m)
            };
            vec![
                packed(-7, 70, Some(300)),
                V::M(vec![]),
                packed(-7, 71, None),
                packed(-8, 0, Some(0)),
                packed(-65537, SIG_MAX, Some(1024)),
                // x5c present but empty
                V::M(vec![(V::t("alg"), V::int(-7)), (V::t("sig"), V::B(fill_bytes(64, id))), (V::t("x5c"), V::A(vec![]))]),
                // a certificate followed by more bytes than its DER header announces (two
                // concatenated objects, trailing bytes), and a signature whose DER lengths disagree
                {
                    let mut cert = fill_bytes(200, id + 9);
                    cert[..4].copy_from_slice(&[0x30, 0x82, 0x00, 0x60]);
                    let mut sig = fill_bytes(70, id);
                    sig[..6].copy_from_slice(&[0x30, 0x20, 0x02, 0x20, 0x00, 0x81]);
                    V::M(vec![(V::t("alg"), V::int(-7)), (V::t("sig"), V::B(sig)), (V::t("x5c"), V::A(vec![V::B(cert)]))])
                },
                // all-zero certificate and signature
                V::M(vec![(V::t("alg"), V::int(-7)), (V::t("sig"), V::B(vec![0; 64])), (V::t("x5c"), V::A(vec![V::B(vec![0; 32])]))]),
            ]
        }
        Ty::EmptyMap => vec![V::M(vec![])],
        Ty::Struct(..) => unreachable!(),
    })
}
