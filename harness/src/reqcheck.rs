//! Decode targets (complete CTAP2 requests and stand-alone nested types), the real-vs-reference
//! comparison, and the two graph-shaped spaces shared by several properties: presence lattices
//! and bounded value deviations.

use crate::bind;
use crate::core::*;
use crate::engine_sr::Space;
use crate::refcbor::{encode, hex, unhex, V};
use crate::refmodel::{self, Plan, Side};
use crate::spec::*;
use crate::subject::*;
use serde_json::{json, Value};
use std::sync::Arc;

#[derive(Clone, Debug, PartialEq)]
pub enum Target {
    /// complete message: command byte + parameter map through ctap2::Request::deserialize
    Cmd(u8),
    /// nested public type through cbor_deserialize::<T>
    Alone(&'static str),
}

pub const STANDALONE: [&str; 12] = [
    "rp", "user", "descriptorRef", "descriptor", "credParam", "options", "mcExtensions", "gaExtensions",
    "hmacSecretInput", "cmParams", "filteredParams", "formatsPreference",
];
/// the stand-alone targets that are structs (have a presence lattice); the last two are lists
pub const STANDALONE_STRUCTS: usize = 10;

fn status_of(e: cbor_smol::Error) -> u8 {
    ctap_types::ctap2::Error::from(ctap_types::ctap2::CtapMappingError::ParsingError(e)) as u8
}

impl Target {
    pub fn name(&self) -> String {
        match self {
            Target::Cmd(b) => match command_of(*b) {
                Some(c) => format!("{:?}@0x{:02x}", c, b),
                None => format!("0x{:02x}", b),
            },
            Target::Alone(n) => format!("alone:{}", n),
        }
    }
    pub fn schema(&self) -> Ty {
        match self {
            Target::Cmd(b) => request_schema(command_of(*b).unwrap()).unwrap(),
            Target::Alone(n) => match *n {
                "rp" => rp_entity(true),
                "user" => user_entity(),
                "descriptorRef" => descriptor_ref(),
                "descriptor" => descriptor_owned(),
                "credParam" => cred_param(),
                "options" => options_req(),
                "mcExtensions" => mc_extensions(),
                "gaExtensions" => ga_extensions_in(),
                "hmacSecretInput" => hmac_secret_input(),
                "cmParams" => cm_params(),
                "filteredParams" => Ty::Params,
                "formatsPreference" => Ty::Formats,
                _ => unreachable!(),
            },
        }
    }
    pub fn bytes(&self, wire: &V) -> Vec<u8> {
        match self {
            Target::Cmd(b) => message(*b, wire),
            Target::Alone(_) => encode(wire),
        }
    }
    pub fn observe_bytes(&self, bytes: &[u8]) -> Dec {
        match self {
            Target::Cmd(_) => decode_request(bytes),
            Target::Alone(n) => {
                breadcrumb(TAG_OTHER, bytes);
                use cbor_smol::cbor_deserialize as de;
                use ctap_types::ctap2::*;
                use ctap_types::webauthn::*;
                let r: std::result::Result<std::result::Result<V, cbor_smol::Error>, String> = guard(|| match *n {
                    "rp" => de::<PublicKeyCredentialRpEntity>(bytes).map(|x| bind::observe_rp(&x)),
                    "user" => de::<PublicKeyCredentialUserEntity>(bytes).map(|x| bind::observe_user(&x)),
                    "descriptorRef" => de::<PublicKeyCredentialDescriptorRef>(bytes).map(|x| bind::observe_descriptor_ref(&x)),
                    "descriptor" => de::<PublicKeyCredentialDescriptor>(bytes).map(|x| bind::observe_descriptor(&x)),
                    "credParam" => de::<PublicKeyCredentialParameters>(bytes).map(|x| bind::observe_param(&x)),
                    "options" => de::<AuthenticatorOptions>(bytes).map(|x| bind::observe_options(&x)),
                    "mcExtensions" => de::<make_credential::Extensions>(bytes).map(|x| bind::observe_mc_ext(&x)),
                    "gaExtensions" => de::<get_assertion::ExtensionsInput>(bytes).map(|x| bind::observe_ga_ext(&x)),
                    "hmacSecretInput" => de::<get_assertion::HmacSecretInput>(bytes).map(|x| bind::observe_hmac_secret(&x)),
                    "cmParams" => de::<credential_management::SubcommandParameters>(bytes).map(|x| bind::observe_cm_params(&x)),
                    "filteredParams" => de::<FilteredPublicKeyCredentialParameters>(bytes).map(|x| bind::observe_params(&x)),
                    "formatsPreference" => de::<AttestationFormatsPreference>(bytes).map(|x| bind::observe_formats(&x)),
                    _ => unreachable!(),
                });
                match r {
                    Ok(Ok(v)) => Dec::Ok(v),
                    Ok(Err(e)) => Dec::Err(status_of(e)),
                    Err(p) => Dec::Panic(p),
                }
            }
        }
    }
    /// reference outcome for a wire tree
    pub fn expect(&self, wire: &V) -> Dec {
        let r = match self {
            Target::Cmd(b) => refmodel::decode_request_tree(*b, Some(wire)),
            Target::Alone(_) => refmodel::decode(&self.schema(), wire).map(|v| v.unwrap()),
        };
        match r {
            Ok(v) => Dec::Ok(v),
            Err(e) => Dec::Err(e),
        }
    }
    pub fn to_json(&self) -> Value {
        match self {
            Target::Cmd(b) => json!({"cmd": b}),
            Target::Alone(n) => json!({"alone": n}),
        }
    }
    pub fn from_json(j: &Value) -> Target {
        if let Some(b) = j["cmd"].as_u64() {
            Target::Cmd(b as u8)
        } else {
            let n = j["alone"].as_str().unwrap();
            Target::Alone(STANDALONE.iter().find(|s| **s == n).expect("standalone name"))
        }
    }
}

/// first path at which two views differ
pub fn diff_path(a: &V, b: &V) -> String {
    fn go(a: &V, b: &V, path: &mut String) -> bool {
        match (a, b) {
            (V::M(x), V::M(y)) => {
                for (k, v) in x {
                    match y.iter().find(|(k2, _)| k2 == k) {
                        None => {
                            path.push_str(&format!("/{}(missing)", key_str(k)));
                            return true;
                        }
                        Some((_, v2)) => {
                            let l = path.len();
                            path.push_str(&format!("/{}", key_str(k)));
                            if go(v, v2, path) {
                                return true;
                            }
                            path.truncate(l);
                        }
                    }
                }
                for (k, _) in y {
                    if !x.iter().any(|(k2, _)| k2 == k) {
                        path.push_str(&format!("/{}(unexpected)", key_str(k)));
                        return true;
                    }
                }
                if x != y {
                    path.push_str("(member order)");
                    return true;
                }
                false
            }
            (V::A(x), V::A(y)) => {
                if x.len() != y.len() {
                    path.push_str("(length)");
                    return true;
                }
                for (i, (p, q)) in x.iter().zip(y).enumerate() {
                    let l = path.len();
                    path.push_str(&format!("/[{}]", i));
                    if go(p, q, path) {
                        return true;
                    }
                    path.truncate(l);
                }
                false
            }
            (p, q) => p != q,
        }
    }
    fn key_str(k: &V) -> String {
        match k.as_str() {
            Some(s) => s.to_string(),
            None => format!("{:?}", k),
        }
    }
    let mut p = String::new();
    go(a, b, &mut p);
    p
}

/// Compare real and reference outcome for one wire tree. `prop` prefixes the signature.
pub fn compare(prop: &str, target: &Target, wire: &V) -> Verdict {
    let bytes = target.bytes(wire);
    compare_bytes(prop, target, &bytes, &target.expect(wire))
}

pub fn compare_bytes(prop: &str, target: &Target, bytes: &[u8], want: &Dec) -> Verdict {
    let got = target.observe_bytes(bytes);
    if got == *want {
        return Verdict::pass();
    }
    let what = match (&want, &got) {
        (_, Dec::Panic(p)) => format!("panic|{}", p.rsplit(" @ ").next().unwrap_or("")),
        (Dec::Ok(a), Dec::Ok(b)) => format!("value{}", diff_path(a, b)),
        (Dec::Ok(_), Dec::Err(e)) => format!("rejected-0x{:02x}", e),
        (Dec::Err(e), Dec::Ok(_)) => format!("accepted-instead-of-0x{:02x}", e),
        (Dec::Err(a), Dec::Err(b)) => format!("status-0x{:02x}-instead-of-0x{:02x}", b, a),
        _ => "other".into(),
    };
    Verdict::fail(format!("{}|{}|{}", prop, target.name(), what), want.show(), got.show())
}

pub fn case_json(target: &Target, wire: &V, extra: Value) -> Value {
    let bytes = target.bytes(wire);
    json!({"kind": "decode-compare", "target": target.to_json(), "bytes": hex(&bytes), "wire": format!("{:?}", wire),
           "expected": target.expect(wire).show(), "origin": extra})
}

/// replay of a decode-compare case: the recorded expectation (text) against a fresh real decode
pub fn replay_decode_compare(prop: &str, case: &Value) -> Verdict {
    let target = Target::from_json(&case["target"]);
    let bytes = unhex(case["bytes"].as_str().unwrap());
    let got = target.observe_bytes(&bytes);
    let want = case["expected"].as_str().unwrap_or("").to_string();
    if got.show() == want {
        Verdict::pass()
    } else {
        Verdict::fail(format!("{}|{}|replay", prop, target.name()), want, got.show())
    }
}

// ------------------------------------------------------------------ spaces

pub struct Shared {
    pub prop: String,
    pub target: Target,
    pub plan: Plan,
}

impl Shared {
    pub fn new(prop: &str, target: Target, side: Side) -> Arc<Shared> {
        let plan = Plan::new(&target.schema(), side);
        Arc::new(Shared {
            prop: prop.to_string(),
            target,
            plan,
        })
    }
}

/// request lattice / deviation spaces for a decode target: real decoder vs reference decoder
pub fn request_lattice(prop: &'static str, sh: &Arc<Shared>, free: u64, base: u64, radius: Option<u32>, label: &str) -> crate::spaces::Lattice {
    let (a, b) = (sh.clone(), sh.clone());
    crate::spaces::Lattice {
        plan: Arc::new(sh.plan.clone()),
        free,
        base,
        radius,
        name: format!("{} presence lattice {}", sh.target.name(), label),
        check: Box::new(move |mask| compare(prop, &a.target, &a.plan.build(mask, &[]))),
        case: Box::new(move |mask| case_json(&b.target, &b.plan.build(mask, &[]), json!({"mask": b.plan.describe_mask(mask)}))),
    }
}

pub fn request_deviations(prop: &'static str, sh: &Arc<Shared>, anchors: Vec<u64>, bound: usize) -> crate::spaces::Deviations {
    let (a, b) = (sh.clone(), sh.clone());
    crate::spaces::Deviations {
        plan: Arc::new(sh.plan.clone()),
        anchors,
        bound,
        name: format!("{} value deviations <= {}", sh.target.name(), bound),
        check: Box::new(move |mask, devs| compare(prop, &a.target, &a.plan.build(mask, devs))),
        case: Box::new(move |mask, devs| {
            case_json(&b.target, &b.plan.build(mask, devs), json!({"mask": b.plan.describe_mask(mask), "deviations": crate::spaces::describe_devs(&b.plan, devs)}))
        }),
    }
}

/// seed masks of a plan: minimal, full, and every single optional member (with its ancestors)
pub fn seed_masks(plan: &Plan) -> Vec<(String, u64)> {
    let mut v = vec![("minimal".to_string(), 0u64)];
    if plan.full_mask() != 0 {
        v.push(("full".to_string(), plan.full_mask()));
    }
    for i in 0..plan.opts.len() {
        let mut m = 0u64;
        let mut g = Some(i);
        while let Some(x) = g {
            m |= 1 << x;
            g = plan.opts[x].parent;
        }
        if !v.iter().any(|(_, x)| *x == m) {
            v.push((format!("only{}", plan.opts[i].path), m));
        }
    }
    v
}

/// thorough variant: every valid mask within two flips of the minimal or of the full message
pub fn seed_masks_radius2(plan: &Plan) -> Vec<(String, u64)> {
    let n = plan.opts.len();
    let full = plan.full_mask();
    let mut v: Vec<(String, u64)> = Vec::new();
    let mut push = |m: u64, v: &mut Vec<(String, u64)>| {
        let m = plan.normalize(m);
        if !v.iter().any(|(_, x)| *x == m) {
            v.push((format!("mask{}", plan.describe_mask(m)), m));
        }
    };
    let closure = |bits: &[usize]| -> u64 {
        let mut m = 0u64;
        for b in bits {
            let mut g = Some(*b);
            while let Some(x) = g {
                m |= 1 << x;
                g = plan.opts[x].parent;
            }
        }
        m
    };
    for (label, m) in seed_masks(plan) {
        let _ = label;
        push(m, &mut v);
    }
    for i in 0..n {
        push(full & !(1u64 << i), &mut v);
        for j in i + 1..n {
            push(closure(&[i, j]), &mut v);
            push(full & !(1u64 << i) & !(1u64 << j), &mut v);
        }
    }
    v
}

/// (label, target, wire tree, message bytes) for every seed of every parameter-bearing command
pub fn all_seeds() -> Vec<(String, Target, V, Vec<u8>)> {
    all_seeds_with(false)
}

pub fn all_seeds_with(radius2: bool) -> Vec<(String, Target, V, Vec<u8>)> {
    let mut out = Vec::new();
    for b in PARAM_CMDS {
        let t = Target::Cmd(b);
        let plan = Plan::new(&t.schema(), Side::Request);
        let masks = if radius2 { seed_masks_radius2(&plan) } else { seed_masks(&plan) };
        for (label, mask) in masks {
            let wire = plan.build(mask, &[]);
            let bytes = t.bytes(&wire);
            out.push((format!("{}:{}", t.name(), label), t.clone(), wire, bytes));
        }
        if b == 0x0c {
            // fragment / offset sizes beyond the feature-dependent fragment constant (3008)
            let big = V::M(vec![(V::U(2), V::B(vec![0x77; 3009])), (V::U(3), V::U(0)), (V::U(4), V::U(3009))]);
            out.push((format!("{}:set-3009-bytes", t.name()), t.clone(), big.clone(), t.bytes(&big)));
            let get = V::M(vec![(V::U(1), V::U(3009)), (V::U(3), V::U(70000))]);
            out.push((format!("{}:get-3009", t.name()), t.clone(), get.clone(), t.bytes(&get)));
        }
        if b == 0x01 {
            // the relying-party icon under its legacy key `url`
            let mut wire = plan.build(plan.full_mask(), &[]);
            if let Some(V::M(rp)) = crate::treewalk::get_mut(&mut wire, &[crate::treewalk::Step::Key(V::U(2))]) {
                for (k, _) in rp.iter_mut() {
                    if *k == V::t("icon") {
                        *k = V::t("url");
                    }
                }
            }
            let wire = wire.canon();
            let bytes = t.bytes(&wire);
            out.push((format!("{}:full-with-legacy-url", t.name()), t.clone(), wire, bytes));
            // a user icon that is dropped (documented): longer than 128 bytes but fewer characters
            let mut wire = plan.build(plan.full_mask(), &[]);
            if let Some(p) = crate::treewalk::get_mut(&mut wire, &[crate::treewalk::Step::Key(V::U(3)), crate::treewalk::Step::Key(V::t("icon"))]) {
                *p = V::t(&"\u{e9}".repeat(65));
            }
            let bytes = t.bytes(&wire);
            out.push((format!("{}:full-with-dropped-icon", t.name()), t.clone(), wire, bytes));
            // parameter entries of a foreign credential type before and between the known ones
            let mut wire = plan.build(plan.full_mask(), &[]);
            if let Some(p) = crate::treewalk::get_mut(&mut wire, &[crate::treewalk::Step::Key(V::U(4))]) {
                *p = V::A(vec![refmodel::param(-8, "private-key"), refmodel::param(-7, PUBLIC_KEY), refmodel::param(-257, "x"), refmodel::param(-8, PUBLIC_KEY)]);
            }
            let bytes = t.bytes(&wire);
            out.push((format!("{}:full-with-foreign-type-entries", t.name()), t.clone(), wire, bytes));
        }
    }
    out
}

/// one leaf / member replacement inside a seed
#[derive(Clone, Debug)]
pub struct Repl {
    pub seed: usize,
    pub path: crate::treewalk::Path,
    pub name: String,
    pub value: V,
    pub what: String,
}

pub struct SeedMsg {
    pub label: String,
    pub target: Target,
    pub wire: V,
}

pub fn seed_msgs(full_and_minimal_only: bool) -> Vec<SeedMsg> {
    all_seeds()
        .into_iter()
        .filter(|s| !full_and_minimal_only || s.0.ends_with(":full") || s.0.ends_with(":minimal"))
        .map(|(label, target, wire, _)| SeedMsg { label, target, wire })
        .collect()
}

/// the same tree with the entries of every map in reverse order (arrays untouched): members sent
/// in an order other than the canonical one, which the decoder accepts
pub fn reverse_maps(v: &V) -> V {
    match v {
        V::M(m) => V::M(m.iter().rev().map(|(k, x)| (k.clone(), reverse_maps(x))).collect()),
        V::A(a) => V::A(a.iter().map(reverse_maps).collect()),
        V::Tag(t, x) => V::Tag(*t, Box::new(reverse_maps(x))),
        other => other.clone(),
    }
}

/// Does this build decode the message although its members are not in canonical order? The
/// properties do not promise that (CTAP2 lets an authenticator insist on canonical order), so the
/// spaces that send members in another order only assert something where the unmodified
/// reordered message is accepted; a strict decoder makes them empty instead of alarming.
pub fn accepts_reordered(target: &Target, wire: &V) -> bool {
    matches!(target.observe_bytes(&target.bytes(wire)), Dec::Ok(_))
}

/// The same question asked with the plainest message there is: the required members only, every
/// list emptied, in reverse order. The probe must not itself walk into the behaviour a reordered
/// space is there to examine (a long list, a value at its limit), or a defect would switch its
/// own detector off.
pub fn accepts_reordered_plain(target: &Target) -> bool {
    fn plain(v: &V) -> V {
        match v {
            V::M(m) => V::M(m.iter().rev().map(|(k, x)| (k.clone(), plain(x))).collect()),
            V::A(_) => V::A(vec![]),
            other => other.clone(),
        }
    }
    let plan = Plan::new(&target.schema(), Side::Request);
    let minimal = plan.build(0, &[]);
    match &minimal {
        V::M(m) if m.len() >= 2 => accepts_reordered(target, &plain(&minimal)),
        // fewer than two required members: add the first optional one so that there is an order to reverse
        _ => {
            let with_one = plan.build(plan.normalize_up(1), &[]);
            accepts_reordered(target, &plain(&with_one))
        }
    }
}

/// entries of a parameter list with `type` sent before `alg`
pub fn accepts_reordered_entries() -> bool {
    static ONCE: std::sync::OnceLock<bool> = std::sync::OnceLock::new();
    *ONCE.get_or_init(|| {
        let entry = V::M(vec![(V::t("type"), V::t(PUBLIC_KEY)), (V::t("alg"), V::int(-7))]);
        accepts_reordered(&Target::Alone("filteredParams"), &V::A(vec![entry]))
    })
}

/// the `:full` seeds once more with every map reversed (those the decoder accepts in that order)
pub fn reversed_full_seeds() -> Vec<SeedMsg> {
    seed_msgs(true)
        .into_iter()
        .filter(|s| s.label.ends_with(":full"))
        .map(|s| SeedMsg { label: format!("{} (members reversed)", s.label), target: s.target, wire: reverse_maps(&s.wire) })
        .filter(|s| accepts_reordered_plain(&s.target))
        .collect()
}

/// PX sweep over replacements: real decoder vs reference decoder on every mutated message
pub fn sweep_replacements(ctx: &'static Ctx, prop: &'static str, name: &str, note: &str, seeds: &[SeedMsg], repls: &[Repl]) {
    sweep(ctx, name, repls.len() as u64, note, |idx, l| {
        let r = &repls[idx as usize];
        let s = &seeds[r.seed];
        let wire = crate::treewalk::replaced(&s.wire, &r.path, r.value.clone());
        let bytes = s.target.bytes(&wire);
        if bytes.len() > MAX_MSG {
            l.bump("skipped: over message limit");
            return;
        }
        l.nontrivial += 1;
        let want = s.target.expect(&wire);
        l.bump(match &want {
            Dec::Ok(_) => "reference: accepted",
            Dec::Err(_) => "reference: rejected",
            _ => "?",
        });
        let v = compare_bytes(prop, &s.target, &bytes, &want);
        if !v.ok {
            l.fail(ctx, idx, v, || case_json(&s.target, &wire, json!({"seed": s.label, "member": r.name, "value": r.what})));
        }
    });
}

/// seed messages that carry unknown text-keyed members in every extensible map (for robustness
/// and status tallies; not used where the reference decoder's verdict on the fault is asserted)
pub fn seeds_with_unknown_members() -> Vec<(String, Vec<u8>)> {
    let mut out = Vec::new();
    for (label, target, wire, _) in all_seeds() {
        if !label.ends_with(":full") {
            continue;
        }
        let mut w = wire.clone();
        let mut n = 0;
        for s in crate::treewalk::sites(&target.schema(), &wire) {
            if let Ty::Struct(Keys::Text, _) = &s.ty {
                let vals = [V::A(vec![V::t("usb"), V::t("nfc")]), V::U(300), V::M(vec![(V::U(1), V::N(24))]), V::Tag(24, Box::new(V::B(vec![1, 2]))), V::F32(0x3f800000)];
                w = crate::treewalk::inserted(&w, &s.path, usize::MAX, V::t(&format!("unknown{}", n)), vals[n % vals.len()].clone());
                n += 1;
            }
        }
        if n > 0 {
            out.push((format!("{}+unknown-members", label), target.bytes(&w)));
        }
    }
    out
}
