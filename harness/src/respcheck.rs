//! Response-side targets: build a real response from a named view through the public API,
//! encode it with the real Response::serialize, compare with the specification tree.

use crate::bind;
use crate::core::*;
use crate::refcbor::{self, encode, hex, unhex, V};
use crate::refmodel::{self, Plan, Side};
use crate::spec::*;
use crate::subject::*;
use ctap_types::ctap2;
use serde_json::{json, Value};
use std::sync::Arc;

#[derive(Clone, Copy, Debug, PartialEq)]
pub enum RKind {
    GetInfo,
    MakeCredential,
    GetAssertion,
    GetNextAssertion,
    ClientPin,
    CredentialManagement,
    LargeBlobs,
}

pub const RKINDS: [RKind; 7] = [
    RKind::GetInfo,
    RKind::MakeCredential,
    RKind::GetAssertion,
    RKind::GetNextAssertion,
    RKind::ClientPin,
    RKind::CredentialManagement,
    RKind::LargeBlobs,
];

impl RKind {
    pub fn name(&self) -> String {
        format!("{:?}", self)
    }
    pub fn from_name(n: &str) -> RKind {
        *RKINDS.iter().find(|k| k.name() == n).expect("response kind")
    }
    pub fn schema(&self) -> Ty {
        match self {
            RKind::GetInfo => get_info_response(),
            RKind::MakeCredential => mc_response(),
            RKind::GetAssertion | RKind::GetNextAssertion => ga_response(),
            RKind::ClientPin => cp_response(),
            RKind::CredentialManagement => cm_response(),
            RKind::LargeBlobs => lb_response(),
        }
    }
    pub fn build(&self, view: &V) -> ctap2::Response {
        match self {
            RKind::GetInfo => ctap2::Response::GetInfo(bind::build_get_info(view)),
            RKind::MakeCredential => ctap2::Response::MakeCredential(bind::build_mc_response(view)),
            RKind::GetAssertion => ctap2::Response::GetAssertion(bind::build_ga_response(view)),
            RKind::GetNextAssertion => ctap2::Response::GetNextAssertion(bind::build_ga_response(view)),
            RKind::ClientPin => ctap2::Response::ClientPin(bind::build_cp_response(view)),
            RKind::CredentialManagement => ctap2::Response::CredentialManagement(bind::build_cm_response(view)),
            RKind::LargeBlobs => ctap2::Response::LargeBlobs(bind::build_lb_response(view)),
        }
    }
}

pub const BIG: usize = 7609;

/// wire tree -> named view -> real response -> real bytes (guarded)
pub fn serialize_wire(kind: RKind, wire: &V) -> Result<Vec<u8>, String> {
    let view = match refmodel::decode(&kind.schema(), wire) {
        Ok(Some(v)) => v,
        other => machinery_panic(&format!("reference decoder rejects a generated response tree {:?}: {:?}", wire, other)),
    };
    breadcrumb(TAG_OTHER, &encode(wire));
    guard(|| {
        let r = kind.build(&view);
        let mut buf: heapless::Vec<u8, BIG> = heapless::Vec::new();
        r.serialize(&mut buf);
        // a clone must encode to the same bytes
        let mut buf2: heapless::Vec<u8, BIG> = heapless::Vec::new();
        r.clone().serialize(&mut buf2);
        if buf != buf2 {
            panic!("clone of the response encodes differently: {} vs {}", crate::refcbor::hex(&buf), crate::refcbor::hex(&buf2));
        }
        buf.to_vec()
    })
}

/// what the encoder must emit for a generated response tree: the tree itself, minus the
/// relying-party icon placeholder (documented: accepted on input, never re-emitted)
pub fn expected_wire(wire: &V) -> V {
    match wire {
        V::M(m) => {
            let is_rp = m.iter().any(|(k, v)| *k == V::t("id") && matches!(v, V::T(_)));
            V::M(m.iter().filter(|(k, _)| !(is_rp && *k == V::t("icon"))).map(|(k, v)| (k.clone(), expected_wire(v))).collect())
        }
        V::A(a) => V::A(a.iter().map(expected_wire).collect()),
        other => other.clone(),
    }
}

/// C02 oracle: status byte, one map, members = specification tree (unordered), no null,
/// empty collapse.
pub fn check_members(prop: &str, kind: RKind, wire: &V, bytes: &[u8]) -> Verdict {
    let wire = &expected_wire(wire);
    let sig = |w: String| format!("{}|{}|{}", prop, kind.name(), w);
    let want_hex = {
        let mut m = vec![0u8];
        if wire.as_map().map_or(true, |m| !m.is_empty()) {
            m.extend(encode(wire));
        }
        hex(&m)
    };
    if bytes.is_empty() || bytes[0] != 0 {
        return Verdict::fail(sig("status-byte".into()), "00 ...", hex(bytes));
    }
    let empty = wire.as_map().map_or(false, |m| m.is_empty());
    if empty {
        if bytes.len() != 1 {
            return Verdict::fail(sig("empty-not-collapsed".into()), "00", hex(bytes));
        }
        return Verdict::pass();
    }
    match refcbor::parse(&bytes[1..]) {
        Err(e) => Verdict::fail(sig(format!("unparseable {:?}", e)), want_hex, hex(bytes)),
        Ok(p) => {
            if p.used != bytes.len() - 1 {
                return Verdict::fail(sig("trailing-bytes".into()), want_hex, hex(bytes));
            }
            if p.value.contains_null() {
                return Verdict::fail(sig("null-emitted".into()), format!("{:?}", wire), format!("{:?}", p.value));
            }
            if !matches!(p.value, V::M(_)) {
                return Verdict::fail(sig("not-a-map".into()), format!("{:?}", wire), format!("{:?}", p.value));
            }
            if !p.value.eq_unordered(wire) {
                let a = wire.clone().canon();
                let b = p.value.clone().canon();
                return Verdict::fail(sig(format!("members{}", crate::reqcheck::diff_path(&a, &b))), format!("{:?}", wire), format!("{:?}", p.value));
            }
            Verdict::pass()
        }
    }
}

/// C03 oracle on a response body
pub fn check_canonical(prop: &str, what: &str, body: &[u8]) -> Verdict {
    match refcbor::validate_canonical(body) {
        Ok(_) => Verdict::pass(),
        Err(issues) => {
            // signature = the first issue without array indices (cause, not input)
            let first = issues[0].clone();
            Verdict::fail(format!("{}|{}|{}", prop, what, first), "CTAP2 canonical CBOR", format!("{} ; bytes={}", issues.join(" ; "), hex(body)))
        }
    }
}

pub struct RShared {
    pub prop: String,
    pub kind: RKind,
    pub plan: Plan,
}

impl RShared {
    pub fn new(prop: &str, kind: RKind) -> Arc<RShared> {
        Arc::new(RShared {
            prop: prop.to_string(),
            kind,
            plan: Plan::new(&kind.schema(), Side::Response),
        })
    }
}

pub fn rcase(kind: RKind, wire: &V, extra: Value) -> Value {
    json!({"kind": "encode", "response": kind.name(), "wire": hex(&encode(wire)), "tree": format!("{:?}", wire), "origin": extra})
}

pub fn wire_of_case(case: &Value) -> (RKind, V) {
    let kind = RKind::from_name(case["response"].as_str().unwrap());
    let bytes = unhex(case["wire"].as_str().unwrap());
    let p = refcbor::parse(&bytes).expect("replay wire");
    (kind, p.value)
}
