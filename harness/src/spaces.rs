//! The graph-shaped spaces shared by several properties (explored with stateright):
//! presence lattices and bounded value deviations over a message plan.

use crate::core::Verdict;
use crate::engine_sr::Space;
use crate::refmodel::Plan;
use serde_json::Value;
use std::sync::Arc;

pub type CheckMask = Box<dyn Fn(u64) -> Verdict + Send + Sync>;
pub type CaseMask = Box<dyn Fn(u64) -> Value + Send + Sync>;

/// number of valid presence masks when only the bits in `free` vary (others fixed as in `base`)
pub fn count_masks(plan: &Plan, free: u64, base: u64) -> u64 {
    fn c(plan: &Plan, i: usize, free: u64, base: u64) -> u64 {
        let mut n = 1u64;
        for (j, o) in plan.opts.iter().enumerate() {
            if o.parent == Some(i) {
                n *= sub(plan, j, free, base);
            }
        }
        n
    }
    fn sub(plan: &Plan, j: usize, free: u64, base: u64) -> u64 {
        if free >> j & 1 == 1 {
            1 + c(plan, j, free, base)
        } else if base >> j & 1 == 1 {
            c(plan, j, free, base)
        } else {
            1
        }
    }
    let mut n = 1u64;
    for (j, o) in plan.opts.iter().enumerate() {
        if o.parent.is_none() {
            n *= sub(plan, j, free, base);
        }
    }
    n
}

/// for a free set without internal nesting: number of subsets within `radius` flips of either end
pub fn count_radius(n: u32, radius: u32) -> u64 {
    let mut total = 0u64;
    for s in 0u64..(1u64 << n) {
        let k = s.count_ones();
        if k <= radius || n - k <= radius {
            total += 1;
        }
    }
    total
}

/// Presence lattice: state = set of present optional members; one transition flips one member
/// (removing a parent removes its children). Starts from both ends. With `radius`, only states
/// within that many flips of an end are explored.
pub struct Lattice {
    pub plan: Arc<Plan>,
    pub free: u64,
    pub base: u64,
    pub radius: Option<u32>,
    pub name: String,
    pub check: CheckMask,
    pub case: CaseMask,
}

impl Lattice {
    fn lo(&self) -> u64 {
        self.plan.normalize(self.base & !self.free)
    }
    fn hi(&self) -> u64 {
        self.plan.normalize(self.base | self.free)
    }
    fn within(&self, s: u64) -> bool {
        match self.radius {
            None => true,
            Some(r) => {
                let d0 = ((s ^ self.lo()) & self.free).count_ones();
                let d1 = ((s ^ self.hi()) & self.free).count_ones();
                d0.min(d1) <= r
            }
        }
    }
}

impl Space for Lattice {
    type S = u64;
    type A = (bool, usize);
    fn name(&self) -> String {
        self.name.clone()
    }
    fn init(&self) -> Vec<u64> {
        let (lo, hi) = (self.lo(), self.hi());
        if lo == hi {
            vec![lo]
        } else {
            vec![lo, hi]
        }
    }
    fn actions(&self, s: &u64, out: &mut Vec<(bool, usize)>) {
        for i in 0..self.plan.opts.len() {
            if self.free >> i & 1 == 1 {
                out.push((s >> i & 1 == 0, i));
            }
        }
    }
    fn next(&self, s: &u64, a: &(bool, usize)) -> Option<u64> {
        let (add, i) = *a;
        let n = if add { s | 1 << i } else { s & !(1 << i) };
        // re-enable fixed children of a re-added parent
        let n = if add { n | (self.base & !self.free) } else { n };
        let n = self.plan.normalize(n);
        if n == *s || !self.within(n) {
            None
        } else {
            Some(n)
        }
    }
    fn check(&self, s: &u64) -> Verdict {
        (self.check)(*s)
    }
    fn case(&self, s: &u64) -> Value {
        (self.case)(*s)
    }
    fn nontrivial(&self, s: &u64) -> bool {
        *s != self.lo()
    }
}

pub type CheckDev = Box<dyn Fn(u64, &[(usize, usize)]) -> Verdict + Send + Sync>;
pub type CaseDev = Box<dyn Fn(u64, &[(usize, usize)]) -> Value + Send + Sync>;

/// Bounded value deviations from an anchor: state = (anchor mask, sorted set of (leaf, menu
/// index)); one transition moves one more leaf away from its default.
pub struct Deviations {
    pub plan: Arc<Plan>,
    pub anchors: Vec<u64>,
    pub bound: usize,
    pub name: String,
    pub check: CheckDev,
    pub case: CaseDev,
}

pub fn count_deviations(plan: &Plan, mask: u64, bound: usize) -> u64 {
    let sizes: Vec<u64> = plan
        .leaves
        .iter()
        .enumerate()
        .filter(|(i, _)| plan.leaf_enabled(*i, mask))
        .map(|(_, l)| l.menu.len() as u64 - 1)
        .collect();
    let mut e = vec![0u64; bound + 1];
    e[0] = 1;
    for s in sizes {
        for k in (1..=bound).rev() {
            e[k] += e[k - 1] * s;
        }
    }
    e.iter().sum()
}

impl Space for Deviations {
    type S = (u64, Vec<(usize, usize)>);
    type A = (usize, usize);
    fn name(&self) -> String {
        self.name.clone()
    }
    fn init(&self) -> Vec<Self::S> {
        self.anchors.iter().map(|m| (*m, vec![])).collect()
    }
    fn actions(&self, s: &Self::S, out: &mut Vec<(usize, usize)>) {
        if s.1.len() >= self.bound {
            return;
        }
        for (l, info) in self.plan.leaves.iter().enumerate() {
            if !self.plan.leaf_enabled(l, s.0) || s.1.iter().any(|(x, _)| *x == l) {
                continue;
            }
            for idx in 1..info.menu.len() {
                out.push((l, idx));
            }
        }
    }
    fn next(&self, s: &Self::S, a: &(usize, usize)) -> Option<Self::S> {
        let mut d = s.1.clone();
        d.push(*a);
        d.sort();
        Some((s.0, d))
    }
    fn check(&self, s: &Self::S) -> Verdict {
        (self.check)(s.0, &s.1)
    }
    fn case(&self, s: &Self::S) -> Value {
        (self.case)(s.0, &s.1)
    }
    fn nontrivial(&self, s: &Self::S) -> bool {
        !s.1.is_empty()
    }
}

pub fn describe_devs(plan: &Plan, devs: &[(usize, usize)]) -> Vec<String> {
    devs.iter().map(|(l, i)| format!("{}#{}", plan.leaves[*l].path, i)).collect()
}
