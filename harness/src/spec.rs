//! Tables transcribed from the specifications (CTAP 2.0/2.1/2.2 parameter tables, WebAuthn
//! dictionaries, COSE key layouts). Nothing in this file names a ctap-types item.
//!
//! A message kind is described by a `Ty` tree. The same tree drives (a) generation of wire
//! values, (b) the reference decoder wire -> named view, (c) the reference encoder named view ->
//! wire.

use crate::refcbor::V;

/// base mode: describe only the members that exist without any wire-affecting feature
/// (used by C16 to build the common-member corpus inside every configuration)
static BASE: std::sync::atomic::AtomicBool = std::sync::atomic::AtomicBool::new(false);
pub fn set_base_mode(on: bool) {
    BASE.store(on, std::sync::atomic::Ordering::SeqCst);
}
fn base() -> bool {
    BASE.load(std::sync::atomic::Ordering::Relaxed)
}
pub fn f_g() -> bool {
    cfg!(feature = "g") && !base()
}
pub fn f_l() -> bool {
    cfg!(feature = "l") && !base()
}
pub fn f_t() -> bool {
    cfg!(feature = "t") && !base()
}

pub const ST_INVALID_COMMAND: u8 = 0x01;
pub const ST_INVALID_CBOR: u8 = 0x12;
pub const ST_MISSING_PARAMETER: u8 = 0x14;
pub const ST_OTHER: u8 = 0x7f;

pub const MAX_MSG: usize = 7609;

#[derive(Clone, Debug, PartialEq)]
pub enum Key {
    I(i64),
    T(&'static str),
}

impl Key {
    pub fn v(&self) -> V {
        match self {
            Key::I(i) => V::int(*i),
            Key::T(t) => V::t(t),
        }
    }
}

#[derive(Clone, Debug)]
pub struct Field {
    pub key: Key,
    /// specification name (used in views and diagnostics)
    pub name: &'static str,
    pub req: bool,
    pub ty: Ty,
    /// additional accepted text keys (legacy aliases)
    pub aliases: &'static [&'static str],
}

#[derive(Clone, Debug, PartialEq, Copy)]
pub enum Keys {
    Int,
    Text,
}

#[derive(Clone, Debug, PartialEq, Copy)]
pub enum CoseMode {
    /// platform key-agreement key: EC2 / ECDH-ES+HKDF-256 / P-256
    Ecdh,
    /// any of the four public-key kinds an authenticator can report
    Any,
}

#[derive(Clone, Debug)]
pub enum Ty {
    /// unsigned integer, inclusive maximum
    Uint(u64),
    /// signed 32-bit integer (COSE algorithm identifiers)
    Int32,
    Bool,
    /// byte string, optional inclusive maximum length
    Bytes(Option<usize>),
    BytesExact(usize),
    /// text, optional inclusive maximum length (longer is rejected)
    Text(Option<usize>),
    /// text cut to at most n bytes on a character boundary (lossy, documented)
    TextTrunc(usize),
    /// text dropped (member reported absent) when longer than n bytes (lossy, documented)
    TextSkip(usize),
    /// text of any length, accepted and discarded; never emitted (lossy, documented)
    Icon,
    List(Box<Ty>, Option<usize>),
    /// pubKeyCredParams: list of {alg, type}; view = first two known algorithms (lossy)
    Params,
    /// `algorithms` as an authenticator emits it: list of at most two {alg, type: "public-key"}
    /// with any 32-bit algorithm identifier (nothing is filtered when encoding); view = [alg]
    ParamsOut,
    /// attestationFormatsPreference: list of text; view = first two known + unknown flag
    Formats,
    /// numeric enumeration
    Enum(&'static [u64]),
    /// string enumeration
    TextEnum(&'static [&'static str]),
    Struct(Keys, Vec<Field>),
    Cose(CoseMode),
    /// attestation statement (response side only): {} or {alg, sig, x5c?}
    AttStmt,
    /// a map with no members (unsignedExtensionOutputs)
    EmptyMap,
}

fn f(key: i64, name: &'static str, req: bool, ty: Ty) -> Field {
    Field {
        key: Key::I(key),
        name,
        req,
        ty,
        aliases: &[],
    }
}
fn ft(name: &'static str, req: bool, ty: Ty) -> Field {
    Field {
        key: Key::T(name),
        name,
        req,
        ty,
        aliases: &[],
    }
}

pub const KNOWN_ALGS: [i64; 2] = [-7, -8];
pub const KNOWN_FORMATS: [&str; 2] = ["packed", "none"];
pub const PUBLIC_KEY: &str = "public-key";

pub const VERSIONS: [&str; 4] = ["FIDO_2_0", "FIDO_2_1", "FIDO_2_1_PRE", "U2F_V2"];
pub const EXTENSIONS: [&str; 4] = ["credProtect", "hmac-secret", "largeBlobKey", "thirdPartyPayment"];
pub const TRANSPORTS: [&str; 2] = ["nfc", "usb"];
pub const FORMATS: [&str; 2] = ["none", "packed"];
pub const PIN_SUBCOMMANDS: [u64; 8] = [1, 2, 3, 4, 5, 6, 7, 9];
pub const CM_SUBCOMMANDS: [u64; 7] = [1, 2, 3, 4, 5, 6, 7];
pub const CRED_PROTECT: [u64; 3] = [1, 2, 3];
pub const U2F_CONTROL: [u8; 3] = [0x03, 0x07, 0x08];

pub const MAX_CRED_ID: usize = 255;
pub const AUTH_DATA_MAX: usize = 676;
pub const SIG_MAX: usize = 77;

pub fn rp_entity(request: bool) -> Ty {
    let mut fields = vec![
        ft("id", true, Ty::Text(Some(256))),
        ft("name", false, Ty::TextTrunc(64)),
    ];
    if request {
        fields.push(Field {
            key: Key::T("icon"),
            name: "icon",
            req: false,
            ty: Ty::Icon,
            aliases: &["url"],
        });
    }
    Ty::Struct(Keys::Text, fields)
}

pub fn user_entity() -> Ty {
    Ty::Struct(
        Keys::Text,
        vec![
            ft("id", true, Ty::Bytes(Some(64))),
            ft("icon", false, Ty::TextSkip(128)),
            ft("name", false, Ty::TextTrunc(64)),
            ft("displayName", false, Ty::TextTrunc(64)),
        ],
    )
}

/// descriptor as it appears in requests (zero-copy: id and type unbounded, any type string)
pub fn descriptor_ref() -> Ty {
    Ty::Struct(
        Keys::Text,
        vec![ft("id", true, Ty::Bytes(None)), ft("type", true, Ty::Text(None))],
    )
}

/// descriptor as it appears in responses (owned)
pub fn descriptor_owned() -> Ty {
    Ty::Struct(
        Keys::Text,
        vec![
            ft("id", true, Ty::Bytes(Some(MAX_CRED_ID))),
            ft("type", true, Ty::Text(Some(32))),
        ],
    )
}

pub fn cred_param() -> Ty {
    Ty::Struct(
        Keys::Text,
        vec![ft("alg", true, Ty::Int32), ft("type", true, Ty::Text(Some(32)))],
    )
}

pub fn options_req() -> Ty {
    Ty::Struct(
        Keys::Text,
        vec![ft("rk", false, Ty::Bool), ft("up", false, Ty::Bool), ft("uv", false, Ty::Bool)],
    )
}

pub fn mc_extensions() -> Ty {
    let mut v = vec![
        ft("credProtect", false, Ty::Uint(255)),
        ft("hmac-secret", false, Ty::Bool),
        ft("largeBlobKey", false, Ty::Bool),
    ];
    if f_t() {
        v.push(ft("thirdPartyPayment", false, Ty::Bool));
    }
    Ty::Struct(Keys::Text, v)
}

pub fn hmac_secret_input() -> Ty {
    Ty::Struct(
        Keys::Int,
        vec![
            f(1, "keyAgreement", true, Ty::Cose(CoseMode::Ecdh)),
            f(2, "saltEnc", true, Ty::Bytes(Some(80))),
            f(3, "saltAuth", true, Ty::Bytes(Some(32))),
            f(4, "pinUvAuthProtocol", false, Ty::Uint(u32::MAX as u64)),
        ],
    )
}

pub fn ga_extensions_in() -> Ty {
    let mut v = vec![
        ft("hmac-secret", false, hmac_secret_input()),
        ft("largeBlobKey", false, Ty::Bool),
    ];
    if f_t() {
        v.push(ft("thirdPartyPayment", false, Ty::Bool));
    }
    Ty::Struct(Keys::Text, v)
}

pub fn ga_extensions_out() -> Ty {
    let mut v = vec![ft("hmac-secret", false, Ty::Bytes(Some(80)))];
    if f_t() {
        v.push(ft("thirdPartyPayment", false, Ty::Bool));
    }
    Ty::Struct(Keys::Text, v)
}

const U32: u64 = u32::MAX as u64;

pub fn mc_request() -> Ty {
    Ty::Struct(
        Keys::Int,
        vec![
            f(1, "clientDataHash", true, Ty::Bytes(None)),
            f(2, "rp", true, rp_entity(true)),
            f(3, "user", true, user_entity()),
            f(4, "pubKeyCredParams", true, Ty::Params),
            f(5, "excludeList", false, Ty::List(Box::new(descriptor_ref()), Some(16))),
            f(6, "extensions", false, mc_extensions()),
            f(7, "options", false, options_req()),
            f(8, "pinUvAuthParam", false, Ty::Bytes(None)),
            f(9, "pinUvAuthProtocol", false, Ty::Uint(U32)),
            f(10, "enterpriseAttestation", false, Ty::Uint(U32)),
            f(11, "attestationFormatsPreference", false, Ty::Formats),
        ],
    )
}

pub fn ga_request() -> Ty {
    Ty::Struct(
        Keys::Int,
        vec![
            f(1, "rpId", true, Ty::Text(None)),
            f(2, "clientDataHash", true, Ty::Bytes(None)),
            f(3, "allowList", false, Ty::List(Box::new(descriptor_ref()), Some(10))),
            f(4, "extensions", false, ga_extensions_in()),
            f(5, "options", false, options_req()),
            f(6, "pinUvAuthParam", false, Ty::Bytes(None)),
            f(7, "pinUvAuthProtocol", false, Ty::Uint(U32)),
            f(8, "enterpriseAttestation", false, Ty::Uint(U32)),
            f(9, "attestationFormatsPreference", false, Ty::Formats),
        ],
    )
}

pub fn cp_request() -> Ty {
    Ty::Struct(
        Keys::Int,
        vec![
            f(1, "pinUvAuthProtocol", true, Ty::Uint(255)),
            f(2, "subCommand", true, Ty::Enum(&PIN_SUBCOMMANDS)),
            f(3, "keyAgreement", false, Ty::Cose(CoseMode::Ecdh)),
            f(4, "pinUvAuthParam", false, Ty::Bytes(None)),
            f(5, "newPinEnc", false, Ty::Bytes(None)),
            f(6, "pinHashEnc", false, Ty::Bytes(None)),
            f(9, "permissions", false, Ty::Uint(255)),
            f(10, "rpId", false, Ty::Text(None)),
        ],
    )
}

pub fn cm_params() -> Ty {
    Ty::Struct(
        Keys::Int,
        vec![
            f(1, "rpIDHash", false, Ty::BytesExact(32)),
            f(2, "credentialID", false, descriptor_ref()),
            f(3, "user", false, user_entity()),
        ],
    )
}

pub fn cm_request() -> Ty {
    Ty::Struct(
        Keys::Int,
        vec![
            f(1, "subCommand", true, Ty::Enum(&CM_SUBCOMMANDS)),
            f(2, "subCommandParams", false, cm_params()),
            f(3, "pinUvAuthProtocol", false, Ty::Uint(255)),
            f(4, "pinUvAuthParam", false, Ty::Bytes(None)),
        ],
    )
}

pub fn lb_request() -> Ty {
    Ty::Struct(
        Keys::Int,
        vec![
            f(1, "get", false, Ty::Uint(U32)),
            f(2, "set", false, Ty::Bytes(None)),
            f(3, "offset", true, Ty::Uint(U32)),
            f(4, "length", false, Ty::Uint(U32)),
            f(5, "pinUvAuthParam", false, Ty::Bytes(None)),
            f(6, "pinUvAuthProtocol", false, Ty::Uint(U32)),
        ],
    )
}

// ---------------------------------------------------------------- responses

/// `usize` members: the five head widths are reachable on a 64-bit target
const USZ: u64 = u64::MAX;

pub fn ctap_options() -> Ty {
    // order of this list is irrelevant to every oracle (views and comparisons are by name)
    let mut v: Vec<Field> = Vec::new();
    let b = |n: &'static str, req: bool| ft(n, req, Ty::Bool);
    if f_g() {
        v.push(b("ep", false));
    }
    v.push(b("rk", true));
    v.push(b("up", true));
    v.push(b("uv", false));
    v.push(b("plat", false));
    if f_g() {
        v.push(b("uvAcfg", false));
        v.push(b("alwaysUv", false));
    }
    v.push(b("credMgmt", false));
    if f_g() {
        v.push(b("authnrCfg", false));
        v.push(b("bioEnroll", false));
    }
    v.push(b("clientPin", false));
    v.push(b("largeBlobs", false));
    if f_g() {
        v.push(b("uvBioEnroll", false));
    }
    v.push(b("pinUvAuthToken", false));
    if f_g() {
        v.push(b("setMinPINLength", false));
        v.push(b("makeCredUvNotRqd", false));
        v.push(b("credentialMgmtPreview", false));
        v.push(b("userVerificationMgmtPreview", false));
        v.push(b("noMcGaPermissionsWithClientPin", false));
    }
    Ty::Struct(Keys::Text, v)
}

pub fn certifications() -> Ty {
    let u = |n: &'static str| ft(n, false, Ty::Uint(255));
    Ty::Struct(
        Keys::Text,
        vec![
            u("FIDO"),
            u("CC-EAL"),
            u("FIPS-CMVP-2"),
            u("FIPS-CMVP-3"),
            u("FIPS-CMVP-2-PHY"),
            u("FIPS-CMVP-3-PHY"),
        ],
    )
}

/// GetInfo as an authenticator can construct it (encode direction)
pub fn get_info_response() -> Ty {
    get_info_response_with(Ty::ParamsOut)
}

/// GetInfo in the loss-free round-trip domain (decoding filters unknown algorithms)
pub fn get_info_response_roundtrip() -> Ty {
    get_info_response_with(Ty::Params)
}

fn get_info_response_with(algorithms: Ty) -> Ty {
    let mut v = vec![
        f(1, "versions", true, Ty::List(Box::new(Ty::TextEnum(&VERSIONS)), Some(4))),
        f(2, "extensions", false, Ty::List(Box::new(Ty::TextEnum(&EXTENSIONS)), Some(4))),
        f(3, "aaguid", true, Ty::Bytes(Some(16))),
        f(4, "options", false, ctap_options()),
        f(5, "maxMsgSize", false, Ty::Uint(USZ)),
        f(6, "pinUvAuthProtocols", false, Ty::List(Box::new(Ty::Uint(255)), Some(2))),
        f(7, "maxCredentialCountInList", false, Ty::Uint(USZ)),
        f(8, "maxCredentialIdLength", false, Ty::Uint(USZ)),
        f(9, "transports", false, Ty::List(Box::new(Ty::TextEnum(&TRANSPORTS)), Some(4))),
        f(10, "algorithms", false, algorithms),
        f(11, "maxSerializedLargeBlobArray", false, Ty::Uint(USZ)),
    ];
    if f_g() {
        v.extend(vec![
            f(12, "forcePINChange", false, Ty::Bool),
            f(13, "minPINLength", false, Ty::Uint(USZ)),
            f(14, "firmwareVersion", false, Ty::Uint(USZ)),
            f(15, "maxCredBlobLength", false, Ty::Uint(USZ)),
            f(16, "maxRPIDsForSetMinPINLength", false, Ty::Uint(USZ)),
            f(17, "preferredPlatformUvAttempts", false, Ty::Uint(USZ)),
            f(18, "uvModality", false, Ty::Uint(USZ)),
            f(19, "certifications", false, certifications()),
            f(20, "remainingDiscoverableCredentials", false, Ty::Uint(USZ)),
            f(21, "vendorPrototypeConfigCommands", false, Ty::Uint(USZ)),
            f(22, "attestationFormats", false, Ty::List(Box::new(Ty::TextEnum(&FORMATS)), Some(2))),
            f(23, "uvCountSinceLastPinEntry", false, Ty::Uint(USZ)),
            f(24, "longTouchForReset", false, Ty::Bool),
        ]);
    }
    Ty::Struct(Keys::Int, v)
}

pub fn mc_response() -> Ty {
    Ty::Struct(
        Keys::Int,
        vec![
            f(1, "fmt", true, Ty::TextEnum(&FORMATS)),
            f(2, "authData", true, Ty::Bytes(Some(AUTH_DATA_MAX))),
            f(3, "attStmt", false, Ty::AttStmt),
            f(4, "epAtt", false, Ty::Bool),
            f(5, "largeBlobKey", false, Ty::BytesExact(32)),
            // 6 unsignedExtensionOutputs: no public way to obtain a value (see DESIGN §2)
        ],
    )
}

pub fn ga_response() -> Ty {
    Ty::Struct(
        Keys::Int,
        vec![
            f(1, "credential", true, descriptor_owned()),
            f(2, "authData", true, Ty::Bytes(Some(AUTH_DATA_MAX))),
            f(3, "signature", true, Ty::Bytes(Some(SIG_MAX))),
            f(4, "user", false, user_entity()),
            f(5, "numberOfCredentials", false, Ty::Uint(U32)),
            f(6, "userSelected", false, Ty::Bool),
            f(7, "largeBlobKey", false, Ty::BytesExact(32)),
            f(8, "unsignedExtensionOutputs", false, Ty::EmptyMap),
            f(9, "epAtt", false, Ty::Bool),
            f(10, "attStmt", false, Ty::AttStmt),
        ],
    )
}

pub fn cp_response() -> Ty {
    Ty::Struct(
        Keys::Int,
        vec![
            f(1, "keyAgreement", false, Ty::Cose(CoseMode::Ecdh)),
            f(2, "pinUvAuthToken", false, Ty::Bytes(Some(48))),
            f(3, "pinRetries", false, Ty::Uint(255)),
            f(4, "powerCycleState", false, Ty::Bool),
            f(5, "uvRetries", false, Ty::Uint(255)),
        ],
    )
}

pub fn cm_response() -> Ty {
    let mut v = vec![
        f(1, "existingResidentCredentialsCount", false, Ty::Uint(U32)),
        f(2, "maxPossibleRemainingResidentCredentialsCount", false, Ty::Uint(U32)),
        // an authenticator can hold an rp entity whose icon placeholder is set (decoded from a
        // request); it must never be emitted
        f(3, "rp", false, rp_entity(true)),
        f(4, "rpIDHash", false, Ty::BytesExact(32)),
        f(5, "totalRPs", false, Ty::Uint(U32)),
        f(6, "user", false, user_entity()),
        f(7, "credentialID", false, descriptor_owned()),
        f(8, "publicKey", false, Ty::Cose(CoseMode::Any)),
        f(9, "totalCredentials", false, Ty::Uint(U32)),
        f(10, "credProtect", false, Ty::Enum(&CRED_PROTECT)),
        f(11, "largeBlobKey", false, Ty::BytesExact(32)),
    ];
    if f_t() {
        v.push(f(12, "thirdPartyPayment", false, Ty::Bool));
    }
    Ty::Struct(Keys::Int, v)
}

pub fn lb_fragment_max() -> usize {
    if f_l() {
        3008
    } else {
        0
    }
}

pub fn lb_response() -> Ty {
    Ty::Struct(Keys::Int, vec![f(1, "config", false, Ty::Bytes(Some(lb_fragment_max())))])
}

// ---------------------------------------------------------------- command table

#[derive(Clone, Copy, Debug, PartialEq, Eq, PartialOrd, Ord)]
pub enum Cmd {
    MakeCredential,
    GetAssertion,
    GetInfo,
    ClientPin,
    Reset,
    GetNextAssertion,
    CredentialManagement,
    Selection,
    LargeBlobs,
    Vendor(u8),
}

/// CTAP 2.1 §6 command list. Some(cmd) = recognised and supported by this crate's request enum;
/// None = InvalidCommand (unassigned, or assigned but unsupported: 0x09, 0x0D, 0x40).
pub fn command_of(byte: u8) -> Option<Cmd> {
    match byte {
        0x01 => Some(Cmd::MakeCredential),
        0x02 => Some(Cmd::GetAssertion),
        0x04 => Some(Cmd::GetInfo),
        0x06 => Some(Cmd::ClientPin),
        0x07 => Some(Cmd::Reset),
        0x08 => Some(Cmd::GetNextAssertion),
        0x09 => None, // bio enrolment: recognised, unsupported
        0x0a => Some(Cmd::CredentialManagement),
        0x0b => Some(Cmd::Selection),
        0x0c => Some(Cmd::LargeBlobs),
        0x0d => None, // config: recognised, unsupported
        0x40 => None, // prototype bio enrolment: recognised, unsupported
        0x41 => Some(Cmd::CredentialManagement), // prototype credential management
        0x42..=0x7f => Some(Cmd::Vendor(byte)),
        _ => None,
    }
}

/// operation names in the specification's table, for Operation round trips
pub fn operation_name(byte: u8) -> Option<&'static str> {
    Some(match byte {
        0x01 => "MakeCredential",
        0x02 => "GetAssertion",
        0x04 => "GetInfo",
        0x06 => "ClientPin",
        0x07 => "Reset",
        0x08 => "GetNextAssertion",
        0x09 => "BioEnrollment",
        0x0a => "CredentialManagement",
        0x0b => "Selection",
        0x0c => "LargeBlobs",
        0x0d => "Config",
        0x40 => "PreviewBioEnrollment",
        0x41 => "PreviewCredentialManagement",
        0x42..=0x7f => "Vendor",
        _ => return None,
    })
}

pub fn request_schema(cmd: Cmd) -> Option<Ty> {
    match cmd {
        Cmd::MakeCredential => Some(mc_request()),
        Cmd::GetAssertion => Some(ga_request()),
        Cmd::ClientPin => Some(cp_request()),
        Cmd::CredentialManagement => Some(cm_request()),
        Cmd::LargeBlobs => Some(lb_request()),
        _ => None,
    }
}

/// the six parameter-bearing command bytes
pub const PARAM_CMDS: [u8; 6] = [0x01, 0x02, 0x06, 0x0a, 0x41, 0x0c];

/// CTAP 2.1 §8.2 status codes (name, value) as far as this crate names them
pub const STATUS_TABLE: &[(&str, u8)] = &[
    ("Success", 0x00),
    ("InvalidCommand", 0x01),
    ("InvalidParameter", 0x02),
    ("InvalidLength", 0x03),
    ("InvalidSeq", 0x04),
    ("Timeout", 0x05),
    ("ChannelBusy", 0x06),
    ("LockRequired", 0x0a),
    ("InvalidChannel", 0x0b),
    ("CborUnexpectedType", 0x11),
    ("InvalidCbor", 0x12),
    ("MissingParameter", 0x14),
    ("LimitExceeded", 0x15),
    ("UnsupportedExtension", 0x16),
    ("FingerprintDatabaseFull", 0x17),
    ("LargeBlobStorageFull", 0x18),
    ("CredentialExcluded", 0x19),
    ("Processing", 0x21),
    ("InvalidCredential", 0x22),
    ("UserActionPending", 0x23),
    ("OperationPending", 0x24),
    ("NoOperations", 0x25),
    ("UnsupportedAlgorithm", 0x26),
    ("OperationDenied", 0x27),
    ("KeyStoreFull", 0x28),
    ("NotBusy", 0x29),
    ("NoOperationPending", 0x2a),
    ("UnsupportedOption", 0x2b),
    ("InvalidOption", 0x2c),
    ("KeepaliveCancel", 0x2d),
    ("NoCredentials", 0x2e),
    ("UserActionTimeout", 0x2f),
    ("NotAllowed", 0x30),
    ("PinInvalid", 0x31),
    ("PinBlocked", 0x32),
    ("PinAuthInvalid", 0x33),
    ("PinAuthBlocked", 0x34),
    ("PinNotSet", 0x35),
    ("PinRequired", 0x36),
    ("PinPolicyViolation", 0x37),
    ("PinTokenExpired", 0x38),
    ("RequestTooLarge", 0x39),
    ("ActionTimeout", 0x3a),
    ("UpRequired", 0x3b),
    ("UvBlocked", 0x3c),
    ("IntegrityFailure", 0x3d),
    ("InvalidSubcommand", 0x3e),
    ("UvInvalid", 0x3f),
    ("UnauthorizedPermission", 0x40),
    ("Other", 0x7f),
    ("SpecLast", 0xdf),
    ("ExtensionFirst", 0xe0),
    ("ExtensionLast", 0xef),
    ("VendorFirst", 0xf0),
    ("VendorLast", 0xff),
];

/// CTAP 2.1 §6.5.5.7 permission bits
pub const PERMISSIONS: &[(&str, u8)] = &[
    ("mc", 0x01),
    ("ga", 0x02),
    ("cm", 0x04),
    ("be", 0x08),
    ("lbw", 0x10),
    ("acfg", 0x20),
];
