//! Guarded calls into the real ctap-types entry points.

use crate::bind;
use crate::core::{breadcrumb, guard};
use crate::refcbor::V;
use ctap_types::ctap2;

#[derive(Clone, Debug, PartialEq)]
pub enum Dec {
    Ok(V),
    Err(u8),
    Panic(String),
}

impl Dec {
    pub fn show(&self) -> String {
        match self {
            Dec::Ok(v) => format!("Ok({:?})", v),
            Dec::Err(e) => format!("Err(0x{:02x})", e),
            Dec::Panic(m) => format!("PANIC({})", m),
        }
    }
    pub fn class(&self) -> &'static str {
        match self {
            Dec::Ok(_) => "accepted",
            Dec::Err(0x01) => "status 0x01",
            Dec::Err(0x12) => "status 0x12",
            Dec::Err(0x14) => "status 0x14",
            Dec::Err(_) => "status other",
            Dec::Panic(_) => "panic",
        }
    }
}

pub const TAG_CTAP2_DECODE: u64 = 1;
pub const TAG_APDU: u64 = 2;
pub const TAG_ARBITRARY: u64 = 3;
pub const TAG_OTHER: u64 = 9;

/// ctap2::Request::deserialize + observation, guarded
pub fn decode_request(msg: &[u8]) -> Dec {
    breadcrumb(TAG_CTAP2_DECODE, msg);
    // the observed view is taken from the value itself; a clone must show the same view and
    // compare equal (authenticators keep clones of requests across user-presence waits)
    match guard(|| {
        ctap2::Request::deserialize(msg).map(|r| {
            let v = bind::observe_request(&r);
            let c = r.clone();
            if c != r || bind::observe_request(&c) != v {
                panic!("clone of the decoded request differs from it");
            }
            v
        })
    }) {
        Ok(Ok(v)) => Dec::Ok(v),
        Ok(Err(e)) => Dec::Err(e as u8),
        Err(p) => Dec::Panic(p),
    }
}

/// status only (no observation): for the large robustness sweeps
#[inline]
pub fn decode_status(msg: &[u8]) -> Result<Option<u8>, String> {
    breadcrumb(TAG_CTAP2_DECODE, msg);
    guard(|| match ctap2::Request::deserialize(msg) {
        Ok(_) => None,
        Err(e) => Some(e as u8),
    })
}

/// decode twice, compare results with PartialEq and Debug (determinism clause of C04)
pub fn decode_twice_equal(msg: &[u8]) -> Result<bool, String> {
    breadcrumb(TAG_CTAP2_DECODE, msg);
    guard(|| {
        let a = ctap2::Request::deserialize(msg);
        let b = ctap2::Request::deserialize(msg);
        a == b && format!("{:?}", a) == format!("{:?}", b)
    })
}

pub fn message(cmd: u8, params: &V) -> Vec<u8> {
    let mut m = vec![cmd];
    crate::refcbor::encode_to(params, &mut m);
    m
}
