//! Walk a wire tree together with its schema: typed sites with paths, and mutation by path.

use crate::refcbor::V;
use crate::spec::*;

#[derive(Clone, Debug, PartialEq)]
pub enum Step {
    /// value of the map entry with this key
    Key(V),
    /// array element
    Idx(usize),
}

pub type Path = Vec<Step>;

pub fn path_str(p: &Path) -> String {
    let mut s = String::new();
    for st in p {
        match st {
            Step::Key(k) => s.push_str(&format!("/{:?}", k)),
            Step::Idx(i) => s.push_str(&format!("/[{}]", i)),
        }
    }
    if s.is_empty() {
        "/".into()
    } else {
        s
    }
}

#[derive(Clone, Debug)]
pub struct TSite {
    pub path: Path,
    pub ty: Ty,
    /// spec-name path for diagnostics
    pub name: String,
    /// is this the value of an optional member (directly)
    pub optional: bool,
}

pub fn get<'a>(root: &'a V, path: &[Step]) -> Option<&'a V> {
    let mut cur = root;
    for st in path {
        cur = match (st, cur) {
            (Step::Key(k), V::M(m)) => &m.iter().find(|(k2, _)| k2 == k)?.1,
            (Step::Idx(i), V::A(a)) => a.get(*i)?,
            _ => return None,
        };
    }
    Some(cur)
}

pub fn get_mut<'a>(root: &'a mut V, path: &[Step]) -> Option<&'a mut V> {
    let mut cur = root;
    for st in path {
        cur = match (st, cur) {
            (Step::Key(k), V::M(m)) => &mut m.iter_mut().find(|(k2, _)| k2 == k)?.1,
            (Step::Idx(i), V::A(a)) => a.get_mut(*i)?,
            _ => return None,
        };
    }
    Some(cur)
}

pub fn replaced(root: &V, path: &[Step], new: V) -> V {
    let mut r = root.clone();
    *get_mut(&mut r, path).expect("path") = new;
    r
}

/// remove the map entry addressed by `path` (last step must be a Key)
pub fn removed(root: &V, path: &[Step]) -> V {
    let mut r = root.clone();
    let (last, parent) = path.split_last().unwrap();
    let p = get_mut(&mut r, parent).expect("path");
    if let (Step::Key(k), V::M(m)) = (last, p) {
        m.retain(|(k2, _)| k2 != k);
    } else {
        panic!("removed: not a map entry");
    }
    r
}

/// duplicate the map entry addressed by `path` right after itself
pub fn duplicated(root: &V, path: &[Step]) -> V {
    let mut r = root.clone();
    let (last, parent) = path.split_last().unwrap();
    let p = get_mut(&mut r, parent).expect("path");
    if let (Step::Key(k), V::M(m)) = (last, p) {
        let i = m.iter().position(|(k2, _)| k2 == k).unwrap();
        let e = m[i].clone();
        m.insert(i + 1, e);
    } else {
        panic!("duplicated: not a map entry");
    }
    r
}

/// insert an entry into the map at `path` at position `pos`
pub fn inserted(root: &V, path: &[Step], pos: usize, k: V, v: V) -> V {
    let mut r = root.clone();
    match get_mut(&mut r, path).expect("path") {
        V::M(m) => m.insert(pos.min(m.len()), (k, v)),
        _ => panic!("inserted: not a map"),
    }
    r
}

/// All typed sites of `wire` under schema `ty` (members actually present), pre-order.
pub fn sites(ty: &Ty, wire: &V) -> Vec<TSite> {
    let mut out = Vec::new();
    walk(ty, wire, &mut Vec::new(), "", false, &mut out);
    out
}

fn walk(ty: &Ty, w: &V, path: &mut Path, name: &str, optional: bool, out: &mut Vec<TSite>) {
    out.push(TSite {
        path: path.clone(),
        ty: ty.clone(),
        name: if name.is_empty() { "/".into() } else { name.to_string() },
        optional,
    });
    match (ty, w) {
        (Ty::Struct(_, fields), V::M(m)) => {
            for (k, v) in m {
                let f = fields.iter().find(|f| f.key.v() == *k || f.aliases.iter().any(|a| V::t(a) == *k));
                if let Some(f) = f {
                    path.push(Step::Key(k.clone()));
                    walk(&f.ty, v, path, &format!("{}/{}", name, f.name), !f.req, out);
                    path.pop();
                }
            }
        }
        (Ty::List(elem, _), V::A(a)) => {
            for (i, x) in a.iter().enumerate() {
                path.push(Step::Idx(i));
                walk(elem, x, path, &format!("{}[{}]", name, i), false, out);
                path.pop();
            }
        }
        (Ty::Params, V::A(a)) | (Ty::ParamsOut, V::A(a)) => {
            let e = cred_param();
            for (i, x) in a.iter().enumerate() {
                path.push(Step::Idx(i));
                walk(&e, x, path, &format!("{}[{}]", name, i), false, out);
                path.pop();
            }
        }
        (Ty::Formats, V::A(a)) => {
            for (i, x) in a.iter().enumerate() {
                path.push(Step::Idx(i));
                walk(&Ty::Text(None), x, path, &format!("{}[{}]", name, i), false, out);
                path.pop();
            }
        }
        (Ty::Cose(_), V::M(m)) => {
            for (k, v) in m {
                let (n, t) = match k.as_i128() {
                    Some(1) => ("kty", Ty::Int32),
                    Some(3) => ("alg", Ty::Int32),
                    Some(-1) => ("crv", Ty::Int32),
                    Some(-2) => ("x", Ty::Bytes(Some(32))),
                    Some(-3) => ("y", Ty::Bytes(Some(32))),
                    _ => continue,
                };
                path.push(Step::Key(k.clone()));
                walk(&t, v, path, &format!("{}/cose.{}", name, n), n == "alg", out);
                path.pop();
            }
        }
        _ => {}
    }
}

/// required members (by path of their map entry) of every struct / COSE key present in `wire`
pub fn required_entries(ty: &Ty, wire: &V) -> Vec<(Path, String)> {
    let mut out = Vec::new();
    for s in sites(ty, wire) {
        if s.path.is_empty() {
            continue;
        }
        if !s.optional && matches!(s.path.last(), Some(Step::Key(_))) {
            out.push((s.path.clone(), s.name.clone()));
        }
    }
    out
}

/// clone of a struct schema with every top-level member optional (for the all-parameter lattice)
pub fn all_optional_top(ty: &Ty) -> Ty {
    match ty {
        Ty::Struct(k, fields) => Ty::Struct(
            *k,
            fields
                .iter()
                .map(|f| {
                    let mut f = f.clone();
                    f.req = false;
                    f
                })
                .collect(),
        ),
        other => other.clone(),
    }
}
