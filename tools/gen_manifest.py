#!/usr/bin/env python3
"""Regenerates /verif/MANIFEST.json from the table below (run after adding a driver)."""
import json, os, sys
ROOT = os.path.dirname(os.path.dirname(os.path.abspath(__file__)))

# id -> (technique, level text, level note, design ref)
T = {
 "C01": ("explicit-state search (stateright BFS) over presence lattices and bounded value deviations of every request; real decoder vs reference decoder in every state",
         "Every subset of optional (incl. nested) parameters of every parameter-bearing command, plus every combination of up to 2 (quick) / 3 (thorough) menu-value deviations from the minimal and the full message, is decoded by the real Request::deserialize and compared field by field with an independent reference decoder driven by specification key tables.",
         "Reference tables in harness/src/spec.rs are transcribed from CTAP 2.1/2.2 and WebAuthn; values outside the boundary menus are not explored.", "DESIGN.md §4 C01"),
 "C02": ("explicit-state search (stateright BFS) over response presence lattices and value deviations; real encoder output parsed by an independent CBOR parser and compared with the specification tree",
         "Every member subset of every response kind (2^22 GetInfo lattice under get-info-full in the thorough tier; all subsets within two deviations of both ends in the quick tier) is built through the public API, encoded by the real Response::serialize, and compared as an unordered member set with the tree the specification tables prescribe.",
         "unsigned_extension_outputs of MakeCredential cannot be constructed outside the crate and is not covered.", "DESIGN.md §4 C02"),
 "C03": ("explicit-state search over member pairs and lattices; strict CTAP2-canonical validator on every emitted byte string",
         "All pairs of members of every serialisable map type, every integer head threshold, every extension-map subset in authenticator data: each emitted encoding must pass an independent strict canonical-CBOR validator.",
         "Pairwise sufficiency argument for key order as in the property text; full lattices cross-check it.", "DESIGN.md §4 C03"),
 "C04": ("stateless exhaustive enumeration (product explorer): all short byte strings, all one-byte edits / truncations / splices of seed messages, structural boundary growth, nesting chains",
         "Every enumerated input is handed to the real decoder in a build with debug assertions and overflow checks; unwinding panics are caught, aborts/stack overflows/stalls are caught by process supervision with per-input breadcrumbs; the decoder is called twice for determinism.",
         "Inputs longer than 5 bytes are covered only within one (thorough: two) byte-level or one structure-level deviation of a seed; stack size 8 MiB.", "DESIGN.md §4 C04"),
 "C05": ("fault enumeration as depth-1 explicit-state search: every single fault at every site of every seed; status compared with the fault-class table",
         "Every required member removed, every truncation offset, every duplicated key, every widened head, every indefinite container, every cross-type replacement, every limit+1, all parameter subsets and all 256 command bytes; the real status must equal the class's status and a faulty message is never accepted.",
         "Single faults only (two faults of different classes have no specified winner).", "DESIGN.md §4 C05"),
 "C06": ("stateless exhaustive enumeration of (host map, position, key name, unknown value) with every definite CBOR value tree up to a node bound; differential oracle",
         "decode(with unknown member) must equal decode(without) for every host map, every insertion position and every CBOR value of at most 3 (quick) / 4-5 (thorough) nodes over a 26-leaf alphabet plus nesting chains.",
         "Unknown values use shortest-form heads (CTAP2 obliges platforms to); integer-keyed unknowns are out of scope of the property.", "DESIGN.md §4 C06"),
 "C07": ("stateless exhaustive enumeration of flags x counters x lengths x extension subsets for both authenticator-data flavours; byte-exact reference layout",
         "Byte-for-byte comparison with the WebAuthn layout, exact error frontier at 676 bytes / 65535-byte ids, for every enumerated combination.", "rp-id hash content is a filler pattern.", "DESIGN.md §4 C07"),
 "C08": ("stateless exhaustive enumeration of APDU header space x data shapes x length encodings against the U2F decision table",
         "The complete 256x256x256 header space crossed with boundary data shapes and all four length encodings is parsed by the real code and compared with the decision table, including extracted slices.",
         "Class 0xFF is rejected by iso7816 before ctap-types is reached.", "DESIGN.md §4 C08"),
 "C09": ("stateless exhaustive enumeration of part lengths, capacities and prefill; explicit-state search over append histories",
         "Register/authenticate/version responses for every key-handle, certificate and signature length, every remaining-space value and several capacities; histories of up to 3 serialisations into one buffer explored with stateright.",
         "—", "DESIGN.md §4 C09"),
 "C10": ("explicit-state search (stateright) over dispatch histories of a recording mock authenticator; stateless enumeration of single dispatches over every single and pair deviation of every request",
         "Every request variant x entry point x handler behaviour, histories up to length 2: exactly one handler call, right handler, unchanged argument, result passed through.",
         "Payload pointer identity is checked on the request object passed to the handler.", "DESIGN.md §4 C10"),
 "C11": ("stateless exhaustive enumeration of all 256 command bytes x payload menu (all short payloads, anchors, malformed, long payloads up to the message limit) against the specification command table; all 256 bytes through the operation tables",
         "The domain of the table is finite and is enumerated completely; payload-independence is checked on every payload of up to 2 bytes (thorough: 3 bytes) and on payloads of up to 7 608 bytes behind every byte; 0x41 is compared with 0x0A on all 2^24 three-byte payloads and on every member subset and every pair of value deviations of a CredentialManagement message.",
         "Payload-independence for long payloads rests on four fillers per length.", "DESIGN.md §4 C11"),
 "C12": ("stateless exhaustive enumeration of every bounded member at every length around its limit and every integer at its range boundaries, inside both anchors, under every value of one other member, in pairs, and with members in reversed order",
         "accept iff within the declared limit; accepted values are delivered whole (compared with the reference decoder).", "Limits come from spec.rs.", "DESIGN.md §4 C12"),
 "C13": ("stateless exhaustive enumeration of all character-width compositions around the 64-byte cut at every alignment; icon lengths; ill-formed UTF-8 at every position",
         "Reference = longest prefix on a std char boundary; checked stand-alone and inside MakeCredential and CredentialManagement.", "—", "DESIGN.md §4 C13"),
 "C14": ("explicit-state search (stateright): state = list, transition = append one entry; all lists up to a length bound plus long lists with known entries at every position pair; stateless enumeration of algorithm identifiers (thorough: all 2^32)",
         "filter(known).take(2) in order for parameters; known formats in order plus unknown flag.", "—", "DESIGN.md §4 C14"),
 "C15": ("explicit-state search over the lattices of every bidirectional type; oracle-free round trips in both directions",
         "decode(encode(v)) == v and encode(decode(b)) == b for canonical b, for every enumerated value of every bidirectional type.", "Loss-free domain only (names <= 64 bytes, no rp icon).", "DESIGN.md §4 C15"),
 "C16": ("exhaustive enumeration of the 9 feature configurations x a deterministic common-member corpus; transcripts compared pairwise",
         "Encode and decode transcripts of every configuration must be identical to cfg-000 on members common to both.", "—", "DESIGN.md §4 C16"),
 "C17": ("stateless exhaustive enumeration of buffer capacities x body sizes x prefill; explicit-state search over serialize histories in one reused buffer",
         "[00]+body iff it fits else [7F], independent of prior content, for every capacity 1..=320, the transport sizes and 65 535..131 072 with bodies swept bytewise across the frontier.",
         "At (capacity 1, empty-map body) only the disjunction {[00],[7F]} is asserted (DESIGN §5 O1).", "DESIGN.md §4 C17"),
 "C18": ("stateless exhaustive enumeration of every byte value / integer threshold for numeric identifiers and every 1- and 2-edit neighbour of every spelling plus the protocol vocabulary for string identifiers",
         "Identifier tables from the specifications, both directions, nothing else accepted.", "—", "DESIGN.md §4 C18"),
 "C19": ("stateless exhaustive enumeration of structured input families for the arbitrary generators (all periodic inputs, bounded deviations, all short words after each variant prefix, tag / selector bytes, one multi-byte character at every offset)",
         "No fault; every generated request is internally valid (UTF-8, capacities), can be formatted, cloned, compared and dispatched.", "Replaces the quantifier's random strings by exhaustive families.", "DESIGN.md §4 C19"),
}

def main():
    built = set()
    mod = open(os.path.join(ROOT, "harness/src/props/mod.rs")).read()
    for pid in T:
        if '"%s" =>' % pid in mod:
            built.add(pid)
    checks, na = [], []
    for pid in sorted(T):
        tech, text, note, ref = T[pid]
        if pid in built:
            checks.append(dict(
                property_id=pid,
                quick_cmd="./check run %s --tier quick" % pid,
                thorough_cmd="./check run %s --tier thorough" % pid,
                evidence_file="/verif/evidence/%s.json" % pid,
                replay_cmd_template="./check replay {path}",
                engine="ctapmc",
                level_claimed=dict(category="model_checking", text=text, design_ref=ref),
                level_note=note,
                technique=tech))
        else:
            na.append(dict(property_id=pid, reason="driver not built yet (work in progress; the design in DESIGN.md applies)"))
    m = dict(
        version=1,
        setup_cmd="./check setup",
        hooks=dict(guard="ctap_types_verif (reserved; no hooks are needed: every observation point is public API)",
                   enable="none needed; checks build /repo as a path dependency of /verif/harness with the feature set of each configuration",
                   baseline_off_cmd="cd /repo && cargo test --workspace --no-fail-fast --offline",
                   source_commits=[], add_only=True),
        engines=[dict(name="ctapmc", path="/verif/harness", serves_properties=sorted(built),
                      kind_free_text="Rust harness linked against /repo per feature configuration: stateright 0.31 explicit-state search (SR) for lattices/lists/histories/fault sets, stateless product explorer (PX) for Cartesian input spaces; independent CBOR layer and specification tables as oracle; python3 orchestrator ./check")],
        checks=checks,
        notes="All verdicts are bounded exhaustive exploration of the real implementation (model-checking family); see DESIGN.md.",
        not_applicable=na)
    json.dump(m, open(os.path.join(ROOT, "MANIFEST.json"), "w"), indent=1)
    print("MANIFEST: %d checks, %d not yet claimed" % (len(checks), len(na)))

main()
