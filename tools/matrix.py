#!/usr/bin/env python3
"""Prints the detection matrix of /verif/seeded as a markdown table."""
import json, glob, os, re
rows = []
for d in sorted(glob.glob('/verif/seeded/*')):
    m = json.load(open(d + '/meta.json'))
    notes = " ".join(m.get('needs_to_manifest', []))
    title = m['needs_to_manifest'][0].lstrip('# ').strip() if m.get('needs_to_manifest') else ''
    title = re.sub(r'^m\d\s*[—-]+\s*', '', title)[:110]
    det = []
    for k, v in sorted(m['quick_checks'].items()):
        if v['rc'] == 1:
            sig = re.sub(r'^\d+\s+', '', v['signatures'].split(';')[0].strip())
            det.append("%s (`%s`)" % (k, sig[:70]))
    none = "**none** (outside the property's input domain: %s)" % m['domain_note'].split(';')[0] if m.get('in_property_domain') is False else "**none**"
    if not det and m.get('thorough_checks'):
        none = "quick tier: none; **thorough tier**: " + "; ".join("%s (`%s`, %s)" % (k, v['signatures'][:60], v.get('space', '')) for k, v in m['thorough_checks'].items())
    rows.append("| %s | %s | %s | %s |" % (m['id'], title.replace('|', '/'), m.get('demo_features', '').replace('--features ', '') or '—', "; ".join(det) or none))
print("| id | change | features needed | caught by (quick tier; first signature) |")
print("|---|---|---|---|")
print("\n".join(rows))
