#!/usr/bin/env python3
"""Re-runs stored seeded defects against the current checks (regression of the detection matrix).

usage: regress.py [--only <substring>] [--from <id>]

For every /verif/seeded/<id>: applies patch.diff to /repo (tools/try_patch.sh, which reverts on exit), runs the
quick checks that detected it when it was stored (or the property's own check if none did) and records the new
outcome under "regression" in meta.json.  Prints one line per seed and a summary of seeds that were detected
before and are not any more.  Evidence and replays of these runs go to /verif/work (never to /verif/evidence).
"""
import json, glob, os, re, subprocess, sys, time

only = None
start = None
args = sys.argv[1:]
while args:
    a = args.pop(0)
    if a == "--only":
        only = args.pop(0)
    elif a == "--from":
        start = args.pop(0)

head = subprocess.run("git -C /verif rev-parse --short HEAD", shell=True, capture_output=True, text=True).stdout.strip()
lost, kept, ood = [], 0, 0
t0 = time.time()
for d in sorted(glob.glob("/verif/seeded/*")):
    sid = os.path.basename(d)
    if only and only not in sid:
        continue
    if start and sid < start:
        continue
    mp = d + "/meta.json"
    m = json.load(open(mp))
    before = sorted(k for k, v in m["quick_checks"].items() if v["rc"] == 1)
    checks = before or [m["property"]]
    env = dict(os.environ, SKIP_SUITE="1")
    out = subprocess.run("/verif/tools/try_patch.sh %s/patch.diff %s" % (d, " ".join(checks)), shell=True, capture_output=True, text=True, env=env).stdout
    det = {}
    for line in out.splitlines():
        mm = re.match(r"\s+(C\d+) rc=(\d+) violations=(\d+)\s*(.*)", line)
        if mm:
            det[mm.group(1)] = dict(rc=int(mm.group(2)), violations=int(mm.group(3)), signatures=mm.group(4).strip())
    now = sorted(k for k, v in det.items() if v["rc"] == 1)
    m["regression"] = dict(verif_commit=head, checks=det)
    json.dump(m, open(mp, "w"), indent=1)
    status = "ok"
    if m.get("in_property_domain") is False:
        ood += 1
        status = "out-of-domain (%s)" % ("reported" if now else "not reported")
    elif before and not now:
        lost.append(sid)
        status = "LOST"
    elif not before and not now:
        status = "still missed"
    else:
        kept += 1
    bad = [k for k, v in det.items() if v["rc"] not in (0, 1)]
    print("%-12s %-14s before=%s now=%s %s [%.0f s]" % (sid, status, ",".join(before) or "-", ",".join(now) or "-", ("MACHINERY " + ",".join(bad)) if bad else "", time.time() - t0), flush=True)
print("summary: %d detected, %d out-of-domain, %d lost: %s" % (kept, ood, len(lost), " ".join(lost)))
