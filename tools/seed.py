#!/usr/bin/env python3
"""seed.py <Cxx> <mN> [extra checks...]
Confirms a sub-agent's seeded defect in a scratch worktree (compiles, repository suite passes, demo fails with it
and passes without it), runs the property's quick check(s) against it on /repo (applied and reverted), and stores it
under /verif/seeded/<Cxx>-<mN>/ (patch.diff, demo.rs, notes.md, meta.json)."""
import json, os, re, shutil, subprocess, sys
prop, m = sys.argv[1], sys.argv[2]
extra = sys.argv[3:]
src = (os.environ.get("SEED_ROOT") + "/%s/%s" % (prop, m)) if os.environ.get("SEED_ROOT") else "/tmp/mut/out-%s/%s" % (prop, m)
SUFFIX = os.environ.get("SEED_SUFFIX", "")
WT = "/tmp/mut/wt-confirm"
ENV = dict(os.environ, CARGO_NET_OFFLINE="true", CARGO_TARGET_DIR="/tmp/mut/target-confirm")
def sh(cmd, cwd=None):
    p = subprocess.run(cmd, shell=True, cwd=cwd, env=ENV, stdout=subprocess.PIPE, stderr=subprocess.STDOUT, text=True)
    return p.returncode, p.stdout
if not os.path.isdir(WT):
    sh("git -C /repo worktree add -q --detach %s HEAD" % WT)
sh("git -C %s checkout -q --detach %s && git -C %s checkout -- . && rm -f %s/tests/demo_seed.rs" % (WT, sh("git -C /repo rev-parse HEAD")[1].strip(), WT, WT))
patch = os.path.join(src, "patch.diff")
demo = open(os.path.join(src, "demo.rs")).read()
head = "\n".join(demo.splitlines()[:25])
feats = ""
# prefer an explicit `cargo test ... --features X` line; "features: none / default" means none
line = re.search(r"cargo test[^\n]*", head)
if re.search(r"(?i)(cargo )?features?\s*(needed|required)?\s*[:=-]+\s*(none|default|no )", head) or re.search(r"(?i)\b(no|without any) (cargo )?features?( are)? (needed|required)", head) or re.search(r"(?i)needs no (cargo )?features", head):
    feats = ""
elif line and "--features" in line.group(0):
    mm = re.search(r"--features[ =]([A-Za-z0-9_,-]+)", line.group(0))
    feats = "--features " + mm.group(1)
    if "--release" in line.group(0):
        feats += " --release"
else:
    mm = re.search(r"--features[ =]([A-Za-z0-9_,-]+)", head)
    if mm:
        feats = "--features " + mm.group(1)
    if re.search(r"cargo test[^\n]*--release", head):
        feats += " --release"
if "SEED_FEATURES" in os.environ:
    feats = os.environ["SEED_FEATURES"]
def suite():
    rc, out = sh("cargo test --offline 2>&1", WT)
    passed = sum(int(x) for x in re.findall(r"test result: \w+\. (\d+) passed", out))
    failed = sum(int(x) for x in re.findall(r"(\d+) failed;", out))
    return passed, failed, rc
def run_demo():
    shutil.copy(os.path.join(src, "demo.rs"), os.path.join(WT, "tests/demo_seed.rs"))
    rc, out = sh("cargo test --offline --test demo_seed %s 2>&1" % feats, WT)
    os.remove(os.path.join(WT, "tests/demo_seed.rs"))
    res = re.findall(r"test result: (\w+)\. (\d+) passed; (\d+) failed", out)
    return rc, res, out[-600:]
meta = dict(property=prop, id="%s-%s%s" % (prop, m, SUFFIX), source="independent sub-agent given only the property text and a scratch worktree", demo_features=feats)
rc, out = sh("git -C %s apply --whitespace=nowarn %s" % (WT, patch))
if rc != 0:
    print("patch does not apply", out); sys.exit(2)
rc1, _ = sh("cargo check --offline 2>&1", WT)
rc2, _ = sh("cargo check --offline --features get-info-full,large-blobs,third-party-payment,arbitrary 2>&1", WT)
p, f, _ = suite()
drc, dres, dtail = run_demo()
sh("git -C %s checkout -- ." % WT)
crc, cres, ctail = run_demo()
meta["confirmed"] = dict(compiles_default=(rc1 == 0), compiles_all_features=(rc2 == 0), repo_suite_with_change="%d passed, %d failed" % (p, f),
                         demo_with_change="rc=%d %s" % (drc, dres), demo_on_clean_tree="rc=%d %s" % (crc, cres))
ok = rc1 == 0 and rc2 == 0 and p == 36 and f == 0 and drc != 0 and crc == 0
meta["kept"] = ok
# run the checks against it
checks = [prop] + extra
det = {}
rc, out = sh("/verif/tools/try_patch.sh %s %s" % (patch, " ".join(checks)))
for line in out.splitlines():
    mm = re.match(r"\s+(C\d+) rc=(\d+) violations=(\d+)\s*(.*)", line)
    if mm:
        det[mm.group(1)] = dict(rc=int(mm.group(2)), violations=int(mm.group(3)), signatures=mm.group(4).strip())
meta["quick_checks"] = det
notes = open(os.path.join(src, "notes.md")).read() if os.path.exists(os.path.join(src, "notes.md")) else ""
meta["needs_to_manifest"] = notes.strip().splitlines()[:12]
meta["commands"] = ["git apply patch.diff (scratch worktree)", "cargo check --offline [--features get-info-full,large-blobs,third-party-payment,arbitrary]", "cargo test --offline", "cargo test --offline --test demo_seed %s (with and without the change)" % feats,
                    "git -C /repo apply patch.diff; ./check run %s --tier quick; git -C /repo checkout -- ." % " / ".join(checks)]
print(json.dumps(meta, indent=1))
if ok:
    dst = "/verif/seeded/%s-%s%s" % (prop, m, SUFFIX)
    os.makedirs(dst, exist_ok=True)
    shutil.copy(patch, dst + "/patch.diff")
    shutil.copy(os.path.join(src, "demo.rs"), dst + "/demo.rs")
    if notes:
        open(dst + "/notes.md", "w").write(notes)
    json.dump(meta, open(dst + "/meta.json", "w"), indent=1)
else:
    print("NOT KEPT")
