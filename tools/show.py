#!/usr/bin/env python3
import json,sys
j=json.load(open(sys.argv[1]))
print({k:j[k] for k in ['states','transitions','evaluations','distinct_nontrivial','violation_count','machinery_errors','wall_s']})
print('hist',j['histogram'])
if len(sys.argv)>2:
    for s in j['spaces']: print('  ',s['name'], s['states'], s['transitions'], s['max_depth'], s['expected_states'])
seen=set()
for v in j['violations']:
    if v['signature'] in seen: continue
    seen.add(v['signature'])
    print(v['signature']); print('   exp',v['expected'][:400]); print('   obs',v['observed'][:400])
print('known',j['known_hits'])
print('notes',j['notes'][:6])
