#!/usr/bin/env python3
"""Prints the measured-sizes table (DESIGN §11.2) from the evidence files of the last runs."""
import json, glob
print("| id | tier | configs | states | transitions | wall | largest spaces (states) |")
print("|---|---|---|---|---|---|---|")
for f in sorted(glob.glob('/verif/evidence/C*.json')):
    j = json.load(open(f))
    c = j['coverage']
    cfgs = [x['cfg'].replace('cfg-', '') for x in c['configs']]
    spaces = {}
    for x in c['configs']:
        for s in x['spaces']:
            spaces[s['name']] = max(spaces.get(s['name'], 0), s['states'])
    top = sorted(spaces.items(), key=lambda kv: -kv[1])[:4]
    def h(n):
        return "%.2f G" % (n / 1e9) if n >= 1e9 else "%.2f M" % (n / 1e6) if n >= 1e6 else "%.1f k" % (n / 1e3) if n >= 1e4 else str(n)
    print("| %s | %s | %s | %s | %s | %.0f s | %s |" % (j['property_id'], j['tier'], ", ".join(cfgs) if len(cfgs) < 6 else "%d configurations" % len(cfgs), h(c['states']), h(c['transitions']), j['wall_s'],
          "; ".join("%s (%s)" % (k[:60], h(v)) for k, v in top)))
