#!/bin/bash
# usage: try_patch.sh <patch.diff> <Cxx> [<Cxx> ...]
# applies the patch to /repo, runs the repository's own suite, then the named quick checks, then reverts.
set -u
patch="$1"; shift
cd /repo || exit 2
if ! git diff --quiet; then echo "repo working tree not clean"; exit 2; fi
if ! git apply --whitespace=nowarn "$patch"; then echo "PATCH DOES NOT APPLY"; exit 2; fi
trap 'git -C /repo checkout -- . ; git -C /repo clean -fdq -- src tests 2>/dev/null' EXIT
if [ -z "${SKIP_SUITE:-}" ]; then
  tests=$(cargo test --offline 2>&1 | grep -E "^test result" | awk '{p+=$4; f+=$6} END {print p" passed "f" failed"}')
  echo "repo suite: $tests"
fi
cd /verif
export VERIF_EVIDENCE_DIR=/verif/work/evidence-mut VERIF_REPLAY_DIR=/verif/work/replays-mut
for p in "$@"; do
  out=$(./check run "$p" --tier quick 2>&1)
  rc=$?
  nv=$(echo "$out" | grep -c "^VIOLATION")
  sig=$(echo "$out" | grep "signature=" | sed 's/.*signature=//' | sort | uniq -c | sort -rn | head -3 | tr '\n' ';')
  mach=$(echo "$out" | grep "^MACHINERY" | head -2 | tr '\n' ';')
  echo "  $p rc=$rc violations=$nv $sig $mach"
done
